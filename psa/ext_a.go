package main

import (
	"encoding/ascii85"
	"fmt"
	"go/ast"
	"go/token"
	"go/types"
	"math"
	"regexp"
	"sort"
	"strconv"
	"strings"
	"text/template/parse"

	"golang.org/x/tools/go/ssa"
)

// Concrete-cell evaluation of the tokenizer (worker A).
//
// The lexical rules of C04 (and the string/name clauses of C09/C10) are decided by evaluating the
// scanner's functions on the SSA form (ssaeval.go) over the cells of the partition the PLRM
// induces on the input: every byte in the position of interest, every escape byte, every line-end
// combination, the number spellings of PLRM 3.2.2.  The *input source* of the scanner is the only
// thing that is modelled — an io.Reader that delivers the bytes of the cell —; everything between
// the source and the result (buffering, peeking, line/column bookkeeping, helper functions,
// look-up tables, switch or if chains) is the repository's code in whatever shape it has, and the
// outcome is compared with a reference reading of the PLRM carried here.  Pure functions of the
// standard library on known arguments (strings.IndexByte, strconv.ParseInt, a regular expression
// of constant pattern, bytes.Buffer, strings.Replacer …) are answered by the library itself;
// generic helpers of package slices are evaluated in place.  Nothing of the repository is built
// or run.

// ---- state of a package after its initialisers (tables, compiled patterns)

type aState struct {
	c        *Ctx
	key      string
	mem      map[string]sv
	lists    map[string][]sv
	maps     map[string]map[string]sv // map value id → key rendering → value
	objs     map[string]any           // library objects built from constants (*regexp.Regexp, *strings.Replacer)
	nalloc   int
	complete bool
}

var aStates = map[*Ctx]map[string]*aState{}

// aInit evaluates the package initialiser of a module package (straight-line code: every call is
// opaque except the library models) and returns the values of its package-level variables.
func (c *Ctx) aInit(pkg string) *aState { return c.aInitFrom(pkg, nil) }

// aInitFrom: the state after the initialisers of pkg, evaluated on top of the state base (the
// state after the initialisers of packages that pkg uses: functions of pkg that are evaluated
// later then see the tables and objects of both).
func (c *Ctx) aInitFrom(pkg string, base *aState) *aState {
	if aStates[c] == nil {
		aStates[c] = map[string]*aState{}
	}
	key := pkg
	if base != nil {
		key = base.key + "+" + pkg
	}
	if st := aStates[c][key]; st != nil {
		return st
	}
	st := &aState{c: c, key: key, mem: map[string]sv{}, lists: map[string][]sv{}, maps: map[string]map[string]sv{}, objs: map[string]any{}}
	if base != nil {
		for k, v := range base.mem {
			st.mem[k] = v
		}
		for k, l := range base.lists {
			st.lists[k] = append([]sv{}, l...)
		}
		for k, m := range base.maps {
			st.maps[k] = map[string]sv{}
			for kk, v := range m {
				st.maps[k][kk] = v
			}
		}
		for k, o := range base.objs {
			st.objs[k] = o
		}
		st.nalloc = base.nalloc
	}
	aStates[c][key] = st
	fn := c.spkg(pkg).Func("init")
	if fn == nil || len(fn.Blocks) == 0 {
		return st
	}
	ev := st.newEval()
	// the initialisers are straight-line code; only the package's own init functions (tables filled
	// by a loop) are evaluated in place
	ev.noInline = func(f *ssa.Function) bool {
		return !(f.Pkg == fn.Pkg && strings.HasPrefix(f.Name(), "init#"))
	}
	inner := ev.load
	ev.load = func(ld *ssa.UnOp, addr sv) (sv, bool) {
		if strings.HasSuffix(addr.s, "init$guard") {
			return boolV(false), true
		}
		return inner(ld, addr)
	}
	ev.steps = -100000
	ret := ev.runFunc(fn, nil)
	st.complete = (ret != nil || ev.why == "") && (base == nil || base.complete)
	for k, v := range ev.mem {
		if strings.HasPrefix(k, "global:") || strings.HasPrefix(k, "cell") {
			st.mem[k] = v
		}
	}
	for k, l := range ev.lists {
		st.lists[k] = l
	}
	for _, ef := range ev.effects {
		if ef.what == "mapupdate" && len(ef.args) == 2 {
			if st.maps[ef.addr] == nil {
				st.maps[ef.addr] = map[string]sv{}
			}
			st.maps[ef.addr][ef.args[0].String()] = ef.args[1]
		}
	}
	st.nalloc = ev.nalloc
	return st
}

// newEval returns an evaluator that starts from the state after the package initialisers.
func (st *aState) newEval() *ssaEval {
	ev := &ssaEval{c: st.c, bind: map[ssa.Value]sv{}, mem: make(map[string]sv, len(st.mem)+16), lists: make(map[string][]sv, len(st.lists)+8), nalloc: st.nalloc, maxDepth: 12, makeLists: true}
	for k, v := range st.mem {
		ev.mem[k] = v
	}
	for k, l := range st.lists {
		ev.lists[k] = append([]sv{}, l...)
	}
	ev.load = func(ld *ssa.UnOp, addr sv) (sv, bool) {
		switch {
		case addr.k == svAddr && strings.HasPrefix(addr.s, "cell"):
			// storage made during the evaluation and not written yet holds the zero value
			if z, ok := aZeroSV(ld.Type()); ok {
				return z, true
			}
		case addr.k == svAddr && strings.HasPrefix(addr.s, "global:"+modPath) && st.complete:
			// a package-level variable of the module (or an element of one) that the initialisers
			// did not write holds the zero value
			if z, ok := aZeroSV(ld.Type()); ok {
				return z, true
			}
		case addr.k == svAddr && strings.HasPrefix(addr.s, "global:") && !strings.Contains(addr.s, "["):
			// a package-level variable of another package (io.EOF, strconv.ErrRange, …)
			return symV("g:" + strings.TrimPrefix(addr.s, "global:")), true
		}
		return sv{}, false
	}
	if st.c.goarch == "386" {
		ev.intBits = 32
	}
	ev.oracle = aOracle
	ev.inlineLib = func(fn *ssa.Function) bool {
		if o := fn.Origin(); o != nil {
			fn = o
		}
		if fn.Pkg == nil {
			return false
		}
		switch fn.Pkg.Pkg.Path() {
		case "slices", "maps", "cmp", "encoding/binary":
			return true
		}
		return false
	}
	ev.call = func(call ssa.CallInstruction, args []sv) (sv, bool) { return st.libCall(ev, call, args) }
	return ev
}

func aZeroSV(t types.Type) (sv, bool) {
	switch u := t.Underlying().(type) {
	case *types.Basic:
		switch {
		case u.Info()&types.IsBoolean != 0:
			return boolV(false), true
		case u.Info()&types.IsInteger != 0:
			return intV(0), true
		case u.Info()&types.IsFloat != 0:
			return sv{k: svFloat}, true
		case u.Info()&types.IsString != 0:
			return sv{k: svString}, true
		}
	case *types.Slice, *types.Pointer, *types.Interface, *types.Map, *types.Signature, *types.Chan:
		return sv{k: svNil}, true
	}
	return sv{}, false
}

// aOracle answers identity comparisons between values that are not constants: two symbols /
// addresses are equal iff they are the same; storage, function values, library objects and
// package-level error values are not nil.
func aOracle(op token.Token, x, y sv) (bool, bool) {
	if op != token.EQL && op != token.NEQ {
		return false, false
	}
	nonNil := func(v sv) bool {
		switch v.k {
		case svAddr:
			return true
		case svList:
			return v.n > 0
		case svSym:
			return v.fn != nil || strings.HasPrefix(v.s, "g:") || strings.HasPrefix(v.s, "obj:") || strings.HasPrefix(v.s, "errors.New(") || strings.HasPrefix(v.s, "fmt.Errorf(") || strings.HasPrefix(v.s, "err:")
		}
		return false
	}
	eq, ok := false, false
	switch {
	case x.k == svNil && nonNil(y), y.k == svNil && nonNil(x):
		eq, ok = false, true
	case x.k == svAddr && y.k == svAddr:
		eq, ok = x.s == y.s, true
	case x.k == svSym && y.k == svSym && nonNil(x) && nonNil(y):
		eq, ok = x.s == y.s, true
	case x.k == svAddr && nonNil(y) && y.k == svSym, y.k == svAddr && nonNil(x) && x.k == svSym:
		eq, ok = false, true
	}
	if !ok {
		return false, false
	}
	if op == token.NEQ {
		eq = !eq
	}
	return eq, true
}

// byteString returns the bytes of a string or byte-slice value whose elements are all known.
func aByteString(ev *ssaEval, v sv) (string, bool) {
	switch {
	case v.k == svString:
		return v.s, true
	case v.k == svNil:
		return "", true
	}
	el, ok := ev.elems(v)
	if !ok {
		return "", false
	}
	buf := make([]byte, 0, len(el))
	for _, x := range el {
		if x.k != svInt {
			return "", false
		}
		buf = append(buf, byte(x.i))
	}
	return string(buf), true
}

func aStrV(s string) sv { return sv{k: svString, s: s} }

// libCall: the library models.  A call with a nil instruction is a pseudo call of the evaluator
// (map look-up, comma-ok type assertion).
func (st *aState) libCall(ev *ssaEval, call ssa.CallInstruction, args []sv) (sv, bool) {
	if call == nil {
		if len(args) == 3 && args[0].s == "lookup" {
			if m := st.maps[args[1].String()]; m != nil && args[2].isConst() {
				if v, ok := m[args[2].String()]; ok {
					return sv{k: svTuple, tup: []sv{v, boolV(true)}}, true
				}
				// the zero value: taken from any entry's kind
				for _, v := range m {
					z := sv{k: v.k}
					return sv{k: svTuple, tup: []sv{z, boolV(false)}}, true
				}
			}
		}
		if len(args) == 2 && strings.HasPrefix(args[0].s, "typeassert:") && args[1].known() {
			if args[1].k == svNil && args[1].typ == nil {
				return sv{k: svTuple, tup: []sv{{k: svNil}, boolV(false)}}, true
			}
			if args[1].typ != nil {
				okT := args[1].typ.String() == strings.TrimPrefix(args[0].s, "typeassert:")
				return sv{k: svTuple, tup: []sv{args[1], boolV(okT)}}, true
			}
		}
		return sv{}, false
	}
	name := callName(call)
	if name == "" && !call.Common().IsInvoke() && ev.fr != nil {
		// a call of a memoising function value (sync.OnceValue and relatives): the first call
		// evaluates the function, every call yields what the first one yielded
		if f := ev.val(ev.fr, call.Common().Value); f.k == svSym && f.fn != nil && strings.HasPrefix(f.s, "once:") {
			key := f.s + ".#result"
			if r, ok := ev.mem[key]; ok {
				return r, true
			}
			fr := ev.fr
			res := ev.aCallFn(f, args)
			ev.fr = fr
			if ev.why != "" || len(res) != f.fn.Signature.Results().Len() {
				return sv{}, false
			}
			r := sv{}
			switch len(res) {
			case 0:
			case 1:
				r = res[0]
			default:
				r = sv{k: svTuple, tup: res}
			}
			ev.mem[key] = r
			return r, true
		}
	}
	str := func(i int) (string, bool) {
		if i < len(args) {
			return aByteString(ev, args[i])
		}
		return "", false
	}
	integer := func(i int) (int64, bool) {
		if i < len(args) && args[i].k == svInt {
			return args[i].i, true
		}
		return 0, false
	}
	errV := func(err error) sv {
		if err == nil {
			return sv{k: svNil}
		}
		return symV("err:" + err.Error())
	}
	tuple := func(v ...sv) sv { return sv{k: svTuple, tup: v} }
	// variadic string arguments
	strList := func(v sv) ([]string, bool) {
		el, ok := ev.elems(v)
		if !ok {
			return nil, false
		}
		var out []string
		for _, x := range el {
			if x.k != svString {
				return nil, false
			}
			out = append(out, x.s)
		}
		return out, true
	}
	newObj := func(o any) sv {
		id := fmt.Sprintf("obj:%d", len(st.objs)+1)
		st.objs[id] = o
		return symV(id)
	}
	switch name {
	case "strings.IndexByte", "bytes.IndexByte":
		if a, ok := str(0); ok {
			if b, ok := integer(1); ok {
				return intV(int64(strings.IndexByte(a, byte(b)))), true
			}
		}
	case "strings.IndexRune", "bytes.IndexRune":
		if a, ok := str(0); ok {
			if b, ok := integer(1); ok {
				return intV(int64(strings.IndexRune(a, rune(b)))), true
			}
		}
	case "strings.ContainsRune", "bytes.ContainsRune":
		if a, ok := str(0); ok {
			if b, ok := integer(1); ok {
				return boolV(strings.ContainsRune(a, rune(b))), true
			}
		}
	case "strings.Contains", "bytes.Contains":
		a, ok1 := str(0)
		b, ok2 := str(1)
		if ok1 && ok2 {
			return boolV(strings.Contains(a, b)), true
		}
	case "strings.ContainsAny", "bytes.ContainsAny":
		a, ok1 := str(0)
		b, ok2 := str(1)
		if ok1 && ok2 {
			return boolV(strings.ContainsAny(a, b)), true
		}
	case "strings.IndexAny", "bytes.IndexAny":
		a, ok1 := str(0)
		b, ok2 := str(1)
		if ok1 && ok2 {
			return intV(int64(strings.IndexAny(a, b))), true
		}
	case "strings.Index", "bytes.Index":
		a, ok1 := str(0)
		b, ok2 := str(1)
		if ok1 && ok2 {
			return intV(int64(strings.Index(a, b))), true
		}
	case "bytes.Equal":
		a, ok1 := str(0)
		b, ok2 := str(1)
		if ok1 && ok2 {
			return boolV(a == b), true
		}
	case "strings.HasPrefix", "bytes.HasPrefix":
		a, ok1 := str(0)
		b, ok2 := str(1)
		if ok1 && ok2 {
			return boolV(strings.HasPrefix(a, b)), true
		}
	case "strings.ReplaceAll", "bytes.ReplaceAll":
		a, ok1 := str(0)
		b, ok2 := str(1)
		d, ok3 := str(2)
		if ok1 && ok2 && ok3 {
			return aStrV(strings.ReplaceAll(a, b, d)), true
		}
	case "strings.Map", "bytes.Map":
		// the mapping function is evaluated for every rune of the argument
		if s, ok := str(1); ok && len(args) == 2 && args[0].fn != nil {
			var out []rune
			for _, r := range s {
				sub := ev
				res := sub.aCallFn(args[0], []sv{intV(int64(r))})
				if len(res) != 1 || res[0].k != svInt {
					return sv{}, false
				}
				if res[0].i >= 0 {
					out = append(out, rune(res[0].i))
				}
			}
			return aStrV(string(out)), true
		}
	case "strings.IndexFunc", "bytes.IndexFunc", "strings.ContainsFunc", "bytes.ContainsFunc":
		// the predicate is evaluated for the runes of the argument in order
		if s, ok := str(0); ok && len(args) == 2 && args[1].fn != nil {
			idx := -1
			for i, r := range s {
				res := ev.aCallFn(args[1], []sv{intV(int64(r))})
				if len(res) != 1 || res[0].k != svBool {
					return sv{}, false
				}
				if res[0].b {
					idx = i
					break
				}
			}
			if strings.HasSuffix(name, "ContainsFunc") {
				return boolV(idx >= 0), true
			}
			return intV(int64(idx)), true
		}
	case "strings.NewReplacer":
		if l, ok := strList(args[0]); ok && len(l)%2 == 0 {
			return newObj(strings.NewReplacer(l...)), true
		}
	case "(*strings.Replacer).Replace":
		if r, ok := st.objs[args[0].s].(*strings.Replacer); ok {
			if s, ok := str(1); ok {
				return aStrV(r.Replace(s)), true
			}
		}
	case "sync.OnceValue", "sync.OnceValues", "sync.OnceFunc":
		// the memoising wrapper of a known function: a function value of its own identity whose
		// result is fixed by its first call (see above)
		if len(args) == 1 && args[0].fn != nil {
			ev.nalloc++
			return sv{k: svSym, s: fmt.Sprintf("once:%d:%s", ev.nalloc, args[0].s), fn: args[0].fn, fv: args[0].fv}, true
		}
	case "regexp.MustCompile":
		if p, ok := str(0); ok && args[0].k == svString {
			if re, err := regexp.Compile(p); err == nil {
				return newObj(re), true
			}
		}
	case "(*regexp.Regexp).FindSubmatch", "(*regexp.Regexp).FindStringSubmatch":
		if re, ok := st.objs[args[0].s].(*regexp.Regexp); ok {
			if s, ok := str(1); ok {
				m := re.FindStringSubmatch(s)
				if m == nil {
					return sv{k: svNil}, true
				}
				var el []sv
				for _, x := range m {
					el = append(el, aStrV(x))
				}
				return ev.newList(el), true
			}
		}
	case "(*regexp.Regexp).Match", "(*regexp.Regexp).MatchString":
		if re, ok := st.objs[args[0].s].(*regexp.Regexp); ok {
			if s, ok := str(1); ok {
				return boolV(re.MatchString(s)), true
			}
		}
	case "strconv.ParseInt":
		if s, ok := str(0); ok && args[0].k == svString {
			base, ok1 := integer(1)
			bits, ok2 := integer(2)
			if ok1 && ok2 {
				if bits == 0 {
					bits = 64
					if ev.intBits == 32 {
						bits = 32
					}
				}
				x, err := strconv.ParseInt(s, int(base), int(bits))
				return tuple(intV(x), errV(err)), true
			}
		}
	case "errors.Is":
		// an error value produced by a library call above, or a sentinel, against a sentinel
		if len(args) == 2 && args[1].k == svSym && strings.HasPrefix(args[1].s, "g:") {
			sentinel := map[string]string{"g:strconv.ErrRange": "value out of range", "g:strconv.ErrSyntax": "invalid syntax", "g:io.EOF": "EOF", "g:io.ErrUnexpectedEOF": "unexpected EOF"}
			msg, known := sentinel[args[1].s]
			switch {
			case args[0].k == svNil:
				return boolV(false), true
			case args[0].k == svSym && args[0].s == args[1].s:
				return boolV(true), true
			case known && args[0].k == svSym && strings.HasPrefix(args[0].s, "err:"):
				return boolV(strings.HasSuffix(args[0].s, ": "+msg) || args[0].s == "err:"+msg), true
			case known && args[0].k == svSym && strings.HasPrefix(args[0].s, "g:"):
				return boolV(false), true
			}
		}
	case "strconv.Atoi":
		if s, ok := str(0); ok && args[0].k == svString {
			x, err := strconv.ParseInt(s, 10, 64)
			return tuple(intV(x), errV(err)), true
		}
	case "strconv.ParseFloat":
		if s, ok := str(0); ok && args[0].k == svString {
			if bits, ok := integer(1); ok {
				x, err := strconv.ParseFloat(s, int(bits))
				return tuple(sv{k: svFloat, f: x}, errV(err)), true
			}
		}
	case "fmt.Sprintf", "fmt.Sprint":
		// constant format, arguments of basic types without methods
		fi := 0
		format := ""
		if name == "fmt.Sprintf" {
			f, ok := str(0)
			if !ok || args[0].k != svString {
				break
			}
			format, fi = f, 1
		}
		if fi < len(args) {
			el, ok := ev.elems(args[fi])
			if !ok {
				break
			}
			var goArgs []any
			for _, x := range el {
				g, ok := aGoValue(x)
				if !ok {
					goArgs = nil
					break
				}
				goArgs = append(goArgs, g)
			}
			if len(goArgs) == len(el) {
				if name == "fmt.Sprintf" {
					return aStrV(fmt.Sprintf(format, goArgs...)), true
				}
				return aStrV(fmt.Sprint(goArgs...)), true
			}
		}
	case "strconv.FormatFloat":
		if len(args) == 4 && args[0].k == svFloat && args[1].k == svInt && args[2].k == svInt && args[3].k == svInt {
			return aStrV(strconv.FormatFloat(args[0].f, byte(args[1].i), int(args[2].i), int(args[3].i))), true
		}
	case "strconv.Itoa":
		if len(args) == 1 && args[0].k == svInt {
			return aStrV(strconv.FormatInt(args[0].i, 10)), true
		}
	case "strconv.FormatInt":
		if len(args) == 2 && args[0].k == svInt && args[1].k == svInt {
			return aStrV(strconv.FormatInt(args[0].i, int(args[1].i))), true
		}
	case "math.IsInf":
		if len(args) == 2 && args[0].k == svFloat && args[1].k == svInt {
			return boolV(math.IsInf(args[0].f, int(args[1].i))), true
		}
	case "math.IsNaN":
		if len(args) == 1 && args[0].k == svFloat {
			return boolV(math.IsNaN(args[0].f)), true
		}
	case "math.Abs":
		if len(args) == 1 && args[0].k == svFloat {
			return sv{k: svFloat, f: math.Abs(args[0].f)}, true
		}
	}
	// byte buffers: the content is kept with the address of the buffer
	if strings.HasPrefix(name, "(*bytes.Buffer).") || strings.HasPrefix(name, "(*strings.Builder).") {
		if len(args) == 0 || args[0].k != svAddr {
			return sv{}, false
		}
		key := args[0].s + ".#content"
		cur := ev.mem[key].s
		m := name[strings.LastIndex(name, ".")+1:]
		switch m {
		case "WriteByte":
			if b, ok := integer(1); ok {
				ev.mem[key] = aStrV(cur + string([]byte{byte(b)}))
				return sv{k: svNil}, true
			}
		case "WriteRune":
			if b, ok := integer(1); ok {
				ev.mem[key] = aStrV(cur + string(rune(b)))
				return tuple(intV(int64(len(string(rune(b))))), sv{k: svNil}), true
			}
		case "WriteString", "Write":
			if s, ok := str(1); ok {
				ev.mem[key] = aStrV(cur + s)
				return tuple(intV(int64(len(s))), sv{k: svNil}), true
			}
		case "String", "Bytes":
			return aStrV(cur), true
		case "Len":
			return intV(int64(len(cur))), true
		case "Reset":
			ev.mem[key] = aStrV("")
			return sv{}, true
		case "Grow":
			return sv{}, true
		}
	}
	return sv{}, false
}

// callFn evaluates a known function value on arguments (a callback handed to a library model).
func (e *ssaEval) aCallFn(f sv, args []sv) []sv {
	if f.fn == nil || len(f.fn.Blocks) == 0 {
		return nil
	}
	sub := &frame{vals: map[ssa.Value]sv{}}
	for i, fv := range f.fn.FreeVars {
		if i < len(f.fv) {
			sub.vals[fv] = f.fv[i]
		}
	}
	for i, p := range f.fn.Params {
		if i < len(args) {
			sub.vals[p] = args[i]
		}
	}
	e.depth++
	_, _, ret := e.runBlocks(sub, f.fn.Blocks[0], nil, nil)
	e.depth--
	return ret
}

// ---- the scanner on a concrete input

type scanModel struct {
	st    *aState
	ev    *ssaEval
	s     sv // the scanner
	input []byte
	pos   int // bytes handed to the scanner so far
	why   string
}

// scannerCtor finds the function that makes a scanner from an io.Reader (by signature).
func (c *Ctx) scannerCtor() *ssa.Function {
	scT := c.typeObj("postscript", "scanner")
	for _, f := range c.modFuncs {
		if f.Parent() != nil || f.Signature.Recv() != nil || f.Signature.Params().Len() != 1 || f.Signature.Results().Len() != 1 {
			continue
		}
		if !pointsTo(f.Signature.Results().At(0).Type(), scT) {
			continue
		}
		if nt, ok := f.Signature.Params().At(0).Type().(*types.Named); ok && nt.Obj().Pkg() != nil && nt.Obj().Pkg().Path() == "io" && nt.Obj().Name() == "Reader" {
			return f
		}
	}
	abort("anchor: no function makes a *scanner from an io.Reader")
	return nil
}

// newScan makes a scanner (by evaluating its constructor) whose source delivers input and then
// io.EOF.
func (c *Ctx) newScan(input string) *scanModel {
	st := c.aInit("postscript")
	m := &scanModel{st: st, ev: st.newEval(), input: []byte(input)}
	ev := m.ev
	lib := ev.call
	ev.call = func(call ssa.CallInstruction, args []sv) (sv, bool) {
		if call != nil && call.Common().IsInvoke() && call.Common().Method.Name() == "Read" && len(args) == 2 && args[0].s == "src" {
			p := args[1]
			dst, ok := ev.elems(p)
			if !ok || p.k != svList {
				return sv{}, false
			}
			n := copy(dst, aBytes(m.input[m.pos:]))
			m.pos += n
			if n == 0 && len(dst) > 0 {
				return sv{k: svTuple, tup: []sv{intV(0), symV("g:io.EOF")}}, true
			}
			return sv{k: svTuple, tup: []sv{intV(int64(n)), {k: svNil}}}, true
		}
		return lib(call, args)
	}
	ret := ev.runFunc(c.scannerCtor(), []sv{symV("src")})
	if len(ret) != 1 || ret[0].k != svAddr {
		m.why = "the scanner constructor could not be evaluated: " + ev.why
		return m
	}
	m.s = ret[0]
	return m
}

func aBytes(b []byte) []sv {
	out := make([]sv, len(b))
	for i, x := range b {
		out[i] = intV(int64(x))
	}
	return out
}

// run evaluates a method of the scanner on the model.
func (m *scanModel) run(fn *ssa.Function, args ...sv) []sv {
	if m.why != "" {
		return nil
	}
	m.ev.why = ""
	m.ev.steps = 0
	ret := m.ev.runFunc(fn, append([]sv{m.s}, args...))
	if ret == nil {
		m.why = m.ev.why
		if m.why == "" {
			m.why = "no return reached"
		}
	}
	return ret
}

// nextByte: what the scanner delivers next (-1 at the end of the input, -2 if not evaluable).
func (m *scanModel) nextByte() int {
	ret := m.run(m.st.c.method("postscript", "scanner", "Next"))
	if len(ret) != 2 {
		return -2
	}
	if ret[1].k != svNil {
		return -1
	}
	if ret[0].k != svInt {
		return -2
	}
	return int(ret[0].i)
}

// ---- PLRM 3.2.2: literal strings (reference reading)

// plrmString reads the literal string at the start of in: its value, the number of bytes it
// occupies, and whether it is complete.
func plrmString(in []byte) (out []byte, n int, ok bool) {
	if len(in) == 0 || in[0] != '(' {
		return nil, 0, false
	}
	level, i := 1, 1
	for i < len(in) {
		b := in[i]
		i++
		switch b {
		case '(':
			level++
			out = append(out, b)
		case ')':
			level--
			if level == 0 {
				return out, i, true
			}
			out = append(out, b)
		case '\r':
			out = append(out, '\n')
			if i < len(in) && in[i] == '\n' {
				i++
			}
		case '\\':
			if i >= len(in) {
				return nil, i, false
			}
			e := in[i]
			i++
			switch e {
			case 'n':
				out = append(out, '\n')
			case 'r':
				out = append(out, '\r')
			case 't':
				out = append(out, '\t')
			case 'b':
				out = append(out, '\b')
			case 'f':
				out = append(out, '\f')
			case '\n':
			case '\r':
				if i < len(in) && in[i] == '\n' {
					i++
				}
			case '0', '1', '2', '3', '4', '5', '6', '7':
				v := int(e - '0')
				for k := 0; k < 2 && i < len(in) && in[i] >= '0' && in[i] <= '7'; k++ {
					v = v*8 + int(in[i]-'0')
					i++
				}
				out = append(out, byte(v)) // high-order overflow is ignored
			default:
				out = append(out, e)
			}
		default:
			out = append(out, b)
		}
	}
	return nil, i, false
}

// readStringCell evaluates the literal-string reader on one input and compares the outcome with
// the reference; "" if they agree.
func (c *Ctx) readStringCell(fn *ssa.Function, in string) string {
	want, n, wantOK := plrmString([]byte(in))
	m := c.newScan(in)
	ret := m.run(fn)
	if len(ret) != 2 {
		return fmt.Sprintf("%q could not be evaluated (%s)", in, m.why)
	}
	gotOK := ret[1].k == svNil
	if gotOK != wantOK {
		if wantOK {
			return fmt.Sprintf("%q is refused (the PLRM reads it as %q)", in, want)
		}
		return fmt.Sprintf("%q is accepted although the string is not complete", in)
	}
	if !wantOK {
		return ""
	}
	got, ok := aByteString(m.ev, ret[0])
	if !ok {
		return fmt.Sprintf("%q: the value read is not determined (%s)", in, m.ev.render(ret[0]))
	}
	if got != string(want) {
		return fmt.Sprintf("%q is read as %q, the PLRM says %q", in, got, want)
	}
	// the reader stops right after the closing parenthesis
	wantNext := -1
	if n < len(in) {
		wantNext = int(in[n])
	}
	if nb := m.nextByte(); nb != wantNext {
		return fmt.Sprintf("after %q the next byte delivered is %d, expected %d: the string does not end at its matching parenthesis", in[:n], nb, wantNext)
	}
	return ""
}

// readStringRules: the literal-string reader against the PLRM on the cells of the partition.
func (c *Ctx) readStringRules() {
	fn := c.method("postscript", "scanner", "ReadString")
	fname := "postscript.(*scanner).ReadString"
	group := func(inputs []string) []string {
		var diffs []string
		for _, in := range inputs {
			if d := c.readStringCell(fn, in); d != "" {
				diffs = append(diffs, d)
			}
		}
		return diffs
	}
	one := func(b int) string { return string([]byte{byte(b)}) }
	// escapes
	var esc, oct, raw, ends, eol, eol2 []string
	for b := 0; b < 256; b++ {
		esc = append(esc, "(\\"+one(b)+"Z)Q")
	}
	for b := 0; b < 256; b++ {
		oct = append(oct, "(\\3"+one(b)+"Z)Q")
	}
	for _, d1 := range "017" {
		for _, d2 := range "0178" {
			for _, d3 := range "0178" {
				for _, d4 := range "0178" {
					oct = append(oct, "(\\"+string([]rune{d1, d2, d3, d4})+")Q")
				}
			}
		}
	}
	for b := 0; b < 256; b++ {
		raw = append(raw, "("+one(b)+"Z)Q")
	}
	raw = append(raw, "(a(b)c)Q", "((()))Q", "(()Q", "(a\\(b)Q", "(a\\)b)Q", "(a(b\\)c)d)Q", "(a(b\\(c)d)Q")
	ends = []string{"()Q", "(a)Q", "(a))", "((a))Q", "(a(b)c)(Q", "(a)", "(a\\)", "(a"}
	alphabet := []string{"\r", "\n", "\\", "Z"}
	var seqs func(prefix string, n int)
	seqs = func(prefix string, n int) {
		if strings.Contains(prefix, "\r\n\n") {
			eol2 = append(eol2, "("+prefix+"Q)R")
		} else if prefix != "" {
			eol = append(eol, "("+prefix+"Q)R")
		}
		if n == 0 {
			return
		}
		for _, a := range alphabet {
			seqs(prefix+a, n-1)
		}
	}
	seqs("", 3)
	eol2 = append(eol2, "(\\\r\n\nQ)R", "(\r\n\n\nQ)R", "(Z\r\n\nQ)R", "(\r\n\n\rQ)R")
	d := group(esc)
	c.check(len(d) == 0, "LEX-ESCAPES", fname, "escape table = PLRM (\\n \\r \\t \\b \\f \\\\ \\( \\) octal, line continuation, other: the character itself)", fn.Pos(), "256 escape bytes evaluated", "the escape table of literal strings differs from the PLRM: "+joinMax(d, 5))
	d = group(oct)
	c.check(len(d) == 0, "LEX-ESCAPES", fname, "octal escape: digits 0–7, at most three, value oct*8+digit", fn.Pos(), fmt.Sprintf("%d digit sequences evaluated", len(oct)), "octal escapes: "+joinMax(d, 4))
	d = group(raw)
	c.check(len(d) == 0, "LEX-RAWBYTES", fname, "unescaped bytes: copied, CR (and CR LF) → LF, parentheses nest", fn.Pos(), "256 byte values and nested parentheses evaluated", "unescaped bytes in literal strings: "+joinMax(d, 5))
	d = group(ends)
	c.check(len(d) == 0, "LEX-RAWBYTES", fname, "the matching ')' ends the string", fn.Pos(), "the byte after the string is the next one delivered", "end of a literal string: "+joinMax(d, 3))
	d = group(eol)
	c.check(len(d) == 0, "LEX-RAWBYTES", fname, "LF directly after CR is dropped; the flag is cleared unconditionally by every other byte", fn.Pos(), fmt.Sprintf("%d sequences of CR, LF, backslash and a letter evaluated", len(eol)), "CR LF normalisation in literal strings: "+joinMax(d, 4))
	d = group(eol2)
	c.check(len(d) == 0, "LEX-RAWBYTES", fname, "only the LF directly after a CR is dropped: a further LF is a line end of its own", fn.Pos(), fmt.Sprintf("%d sequences with CR LF LF evaluated", len(eol2)), "CR LF LF in literal strings: "+joinMax(d, 4))
}

func (c *Ctx) aDebug(in string) {
	m := c.newScan(in)
	fmt.Println("ctor:", m.s, m.why)
	fn := c.method("postscript", "scanner", "ReadString")
	if strings.HasPrefix(in, "tok:") {
		m = c.newScan(in[4:])
		fn = c.method("postscript", "scanner", "ScanToken")
	}
	ret := m.run(fn)
	fmt.Println("ret:", ret, "why:", m.why)
	for _, r := range ret {
		fmt.Println("   ", m.ev.render(r), r.typ)
	}
	for _, ef := range m.ev.effects {
		fmt.Println("  ", ef.what, ef.addr, ef.args)
	}
	var keys []string
	for k := range m.ev.mem {
		if !strings.HasPrefix(k, "global:") {
			keys = append(keys, k)
		}
	}
	sort.Strings(keys)
	for _, k := range keys {
		fmt.Println("  mem", k, "=", m.ev.render(m.ev.mem[k]))
	}
}

// goValue: the Go value of a constant of a basic type without methods (for the fmt model).
func aGoValue(x sv) (any, bool) {
	if x.typ == nil {
		return nil, false
	}
	if nt, ok := x.typ.(*types.Named); ok && nt.NumMethods() > 0 {
		return nil, false
	}
	bt, ok := x.typ.Underlying().(*types.Basic)
	if !ok {
		return nil, false
	}
	switch {
	case x.k == svInt:
		switch bt.Kind() {
		case types.Uint8:
			return uint8(x.i), true
		case types.Int8:
			return int8(x.i), true
		case types.Uint16:
			return uint16(x.i), true
		case types.Int16:
			return int16(x.i), true
		case types.Uint32:
			return uint32(x.i), true
		case types.Int32:
			return int32(x.i), true
		case types.Int:
			return int(x.i), true
		case types.Int64:
			return x.i, true
		case types.Uint, types.Uint64:
			return uint64(x.i), true
		}
	case x.k == svString && bt.Kind() == types.String:
		return x.s, true
	case x.k == svFloat && bt.Kind() == types.Float64:
		return x.f, true
	case x.k == svBool && bt.Kind() == types.Bool:
		return x.b, true
	}
	return nil, false
}

// nameWriter: Name.PS evaluated for every byte value alone, after and before a regular
// character: it must refuse (panic) exactly the names that contain a byte outside the
// regular-character class — the class the scanner ends a name at — and write the others as /name.
// The class is a class of BYTES: the same is decided for names whose bytes form multi-byte
// characters of the text encoding (every two-byte UTF-8 sequence, and three- and four-byte
// sequences for every value of the low eight bits of the character number), so that a serialiser
// that looks at wider units than bytes — and so at values no byte of the name has — disagrees
// with the scanner, which accepts every byte above 127 in a name.
func (c *Ctx) nameWriter(regular [256]bool) {
	fn := c.method("postscript", "Name", "PS")
	st := c.aInit("postscript")
	var diffs []string
	n := 0
	try := func(in string) {
		n++
		bad := -1
		for i := 0; i < len(in); i++ {
			if !regular[in[i]] {
				bad = int(in[i])
				break
			}
		}
		ev := st.newEval()
		ret := ev.runFunc(fn, []sv{aStrV(in)})
		panics := false
		for _, ef := range ev.effects {
			if ef.what == "panic" {
				panics = true
			}
		}
		switch {
		case ret == nil && !panics:
			diffs = append(diffs, fmt.Sprintf("Name.PS could not be evaluated for %q (%s)", in, ev.why))
		case bad < 0 && panics:
			diffs = append(diffs, fmt.Sprintf("the name %q is refused although it consists of regular characters (bytes % x)", in, in))
		case bad >= 0 && !panics:
			diffs = append(diffs, fmt.Sprintf("the name %q is written (as %s) although byte %d is not a regular character: the scanner ends the name there", in, ev.render(ret[0]), bad))
		case bad < 0 && (len(ret) != 1 || ret[0].k != svString || ret[0].s != "/"+in):
			diffs = append(diffs, fmt.Sprintf("the name %q is written as %s, expected %q", in, ev.render(ret[0]), "/"+in))
		}
	}
	for b := 0; b < 256; b++ {
		one := string([]byte{byte(b)})
		for _, in := range []string{one, "a" + one, one + "a", "ab" + one + "c"} {
			try(in)
		}
	}
	// bytes that together are one character of the text encoding
	var multi []string
	for cp := 0x80; cp < 0x800; cp++ {
		multi = append(multi, string(rune(cp)))
	}
	for low := 0; low < 256; low++ {
		multi = append(multi, string(rune(0x2000+low)), string(rune(0x1F600+low)))
	}
	for _, m := range multi {
		try(m)
		try("a" + m + "b")
	}
	ev := st.newEval()
	ret := ev.runFunc(fn, []sv{aStrV("")})
	if len(ret) != 1 || ret[0].s != "/" {
		diffs = append(diffs, "the empty name is not written as /")
	}
	c.check(len(diffs) == 0, "LEX-NAME", c.fname(fn), "the name serialiser accepts exactly the regular-character class", fn.Pos(), fmt.Sprintf("%d names evaluated: refused iff a byte is outside the class isRegular decides", n), "Name.PS and the scanner's regular-character class disagree: "+joinMax(diffs, 4))
}

// ---- numbers and names: ScanToken on the spellings of PLRM 3.2.2

type tokCase struct {
	tok  string
	kind string // Integer, Real, Operator
	i    int64
	f    float64
}

var plrmTokens = []tokCase{
	// integers (PLRM 3.2.2: 123 -98 43445 0 +17)
	{"123", "Integer", 123, 0}, {"-98", "Integer", -98, 0}, {"43445", "Integer", 43445, 0}, {"0", "Integer", 0, 0}, {"+17", "Integer", 17, 0}, {"+0", "Integer", 0, 0}, {"-0", "Integer", 0, 0}, {"007", "Integer", 7, 0},
	// reals (-.002 34.5 -3.62 123.6e10 1.0E-5 1E6 -1. 0.0)
	{"-.002", "Real", 0, -.002}, {"34.5", "Real", 0, 34.5}, {"-3.62", "Real", 0, -3.62}, {"123.6e10", "Real", 0, 123.6e10}, {"1.0E-5", "Real", 0, 1.0e-5}, {"1E6", "Real", 0, 1e6}, {"-1.", "Real", 0, -1}, {"0.0", "Real", 0, 0},
	{".5", "Real", 0, .5}, {"+.5", "Real", 0, .5}, {"+1.5e3", "Real", 0, 1500}, {"+1E-2", "Real", 0, .01}, {"1e+3", "Real", 0, 1000}, {"-1E-2", "Real", 0, -.01},
	// an integer beyond the implementation limit is converted to a real
	{"100000000000000000000", "Real", 0, 1e20},
	// radix numbers (8#1777 16#FFFE 2#1000)
	{"8#1777", "Integer", 1023, 0}, {"16#FFFE", "Integer", 65534, 0}, {"2#1000", "Integer", 8, 0}, {"16#ff", "Integer", 255, 0}, {"36#Z", "Integer", 35, 0},
	// anything else made of regular characters is an executable name
	{"abc", "Operator", 0, 0}, {"+", "Operator", 0, 0}, {"-", "Operator", 0, 0}, {".", "Operator", 0, 0}, {"+a", "Operator", 0, 0}, {"-a", "Operator", 0, 0}, {"1a", "Operator", 0, 0}, {"16#", "Operator", 0, 0}, {"#1", "Operator", 0, 0},
	{"1#0", "Operator", 0, 0}, {"37#1", "Operator", 0, 0}, {"8#9", "Operator", 0, 0}, {"--1", "Operator", 0, 0}, {"1e", "Operator", 0, 0}, {"e5", "Operator", 0, 0}, {"1+", "Operator", 0, 0}, {"1.2.3", "Operator", 0, 0}, {"$", "Operator", 0, 0},
	// spellings that number parsers of general-purpose libraries accept and PostScript does not
	{"0x1p4", "Operator", 0, 0}, {"0X1P-2", "Operator", 0, 0}, {"0x10", "Operator", 0, 0}, {"1_0", "Operator", 0, 0}, {"1_000.5", "Operator", 0, 0}, {"1e1_0", "Operator", 0, 0},
	{"Inf", "Operator", 0, 0}, {"inf", "Operator", 0, 0}, {"+Inf", "Operator", 0, 0}, {"-inf", "Operator", 0, 0}, {"Infinity", "Operator", 0, 0}, {"NaN", "Operator", 0, 0}, {"nan", "Operator", 0, 0},
	{"0b101", "Operator", 0, 0}, {"0o17", "Operator", 0, 0}, {"1.5p3", "Operator", 0, 0},
}

func (c *Ctx) numberRules() {
	fn := c.method("postscript", "scanner", "ScanToken")
	fname := "postscript.(*scanner).ScanToken"
	var numDiffs, nameDiffs []string
	nNum, nName := 0, 0
	for _, tc := range plrmTokens {
		for _, tail := range []string{" ", "", "\n", ")", "/x"} {
			if tail != " " && tc.tok != "+17" && tc.tok != "abc" && tc.tok != "-.002" {
				continue // the token ends at white space, at the end of the input or at a delimiter alike: three representatives
			}
			in := tc.tok + tail
			m := c.newScan(in)
			ret := m.run(fn)
			got := ""
			switch {
			case len(ret) != 2:
				got = "not evaluable (" + m.why + ")"
			case ret[1].k != svNil:
				got = "error " + ret[1].String()
			case ret[0].typ == nil:
				got = "a value of undetermined type " + m.ev.render(ret[0])
			default:
				tn := ret[0].typ.String()
				tn = tn[strings.LastIndex(tn, ".")+1:]
				v := ret[0]
				val := v.String()
				if s, ok := aByteString(m.ev, v); ok && v.k != svInt && v.k != svFloat {
					val = s
				}
				got = tn + " " + val
			}
			want := ""
			switch tc.kind {
			case "Integer":
				want = fmt.Sprintf("Integer %d", tc.i)
			case "Real":
				want = "Real " + sv{k: svFloat, f: tc.f}.String()
			case "Limitcheck":
				want = "error limitcheck"
				if len(ret) == 2 && ret[1].k != svNil && strings.Contains(m.ev.render(ret[1])+ret[1].String(), "limitcheck") {
					got = want
				}
			default:
				want = "Operator " + tc.tok
			}
			if tc.kind == "Operator" {
				nName++
				if got != want {
					nameDiffs = append(nameDiffs, fmt.Sprintf("%q is read as %s, expected the executable name", in, got))
				}
			} else {
				nNum++
				if got != want {
					numDiffs = append(numDiffs, fmt.Sprintf("%q is read as %s, expected %s", in, got, want))
				}
			}
		}
	}
	c.check(len(numDiffs) == 0, "LEX-NUMBER", fname, "the number spellings of PLRM 3.2.2 (signed integers, reals with and without exponent, radix numbers) are read as the numbers they denote", fn.Pos(), fmt.Sprintf("%d spellings evaluated", nNum), "number syntax: "+joinMax(numDiffs, 4))
	c.check(len(nameDiffs) == 0, "LEX-NUMBER", fname, "a token of regular characters that is not a number is an executable name", fn.Pos(), fmt.Sprintf("%d tokens evaluated", nName), "names that look like numbers: "+joinMax(nameDiffs, 4))
}

// ---- DSC comments under the three line-end conventions

func (c *Ctx) dscLineRules() {
	fn := c.method("postscript", "scanner", "ScanToken")
	fname := "postscript.(*scanner).SkipWhiteSpace"
	scT := c.typeObj("postscript", "scanner")
	cmT := c.typeObj("postscript", "Comment")
	field := ""
	st := scT.Type().Underlying().(*types.Struct)
	for i := 0; i < st.NumFields(); i++ {
		if sl, ok := st.Field(i).Type().Underlying().(*types.Slice); ok && typeIsNamed(sl.Elem(), cmT) {
			field = st.Field(i).Name()
		}
	}
	if field == "" {
		c.undecided("LEX-EOL", fname, "DSC comments under CR, LF and CR LF", fn.Pos(), "the scanner has no field of type []Comment")
		return
	}
	var diffs []string
	for _, eol := range []string{"\n", "\r", "\r\n"} {
		lines := []string{"%!PS-Adobe-3.0", "%%Title: a b", "%%+ c", "% plain comment", "", "%%Pages: 1", "12 %%NotAtLineStart: x", "%%EOF", "/x"}
		in := strings.Join(lines, eol) + eol
		m := c.newScan(in)
		var toks []string
		for k := 0; k < 2; k++ {
			ret := m.run(fn)
			if len(ret) != 2 || ret[1].k != svNil {
				toks = append(toks, "?")
				break
			}
			s, _ := aByteString(m.ev, ret[0])
			if ret[0].k == svInt {
				s = ret[0].String()
			}
			toks = append(toks, s)
		}
		// run on to the end of the input so that the trailing comment is seen
		m.run(fn)
		m.why = ""
		got := "[]"
		if v, ok := m.ev.mem[m.s.s+"."+field]; ok {
			got = m.ev.render(v)
		}
		want := `[{Key:"Title",Value:"a b c"} {Key:"Pages",Value:"1"} {Key:"EOF",Value:""}]`
		if strings.Join(toks, " ") != "12 x" {
			diffs = append(diffs, fmt.Sprintf("with line end %q the tokens read are %q, expected 12 and x (%s)", eol, toks, m.ev.why))
		} else if got != want {
			diffs = append(diffs, fmt.Sprintf("with line end %q the structured comments collected are %s, expected %s", eol, got, want))
		}
	}
	c.check(len(diffs) == 0, "LEX-EOL", fname, "%%Key: value lines (with %%+ continuation) at the start of a line are collected in order under LF, CR and CR LF line ends; comments elsewhere are skipped", fn.Pos(), "a nine-line prologue evaluated under the three line-end conventions", "DSC comments and line ends: "+joinMax(diffs, 3))
}

// ---- comment lines of the font program template

// tmplFuncSSA resolves a function of the template's FuncMap to its SSA function.
func (c *Ctx) tmplFuncSSA(name string) *ssa.Function {
	t := c.fontTemplate()
	e := t.fnExpr[name]
	if e == nil {
		return nil
	}
	p := c.pkg("type1")
	switch x := ast.Unparen(e).(type) {
	case *ast.FuncLit:
		for _, f := range c.modFuncs {
			if f.Syntax() == ast.Node(x) {
				return f
			}
		}
	case *ast.Ident:
		if fo, ok := p.TypesInfo.ObjectOf(x).(*types.Func); ok {
			return c.prog.FuncValue(fo)
		}
	case *ast.SelectorExpr:
		if fo, ok := p.TypesInfo.ObjectOf(x.Sel).(*types.Func); ok {
			return c.prog.FuncValue(fo)
		}
	}
	return nil
}

// tmplFuncValue: the function value that the template's FuncMap holds under name once the
// package is initialised (st: a state that includes the initialisers of type1) — a function literal, a named function, a method value bound to a
// package-level object (r.Replace of a strings.Replacer), a closure returned by a constructor —
// taken from the evaluated package initialiser; the syntactic resolution is the fallback.
func (c *Ctx) tmplFuncValue(st *aState, name string) (sv, bool) {
	t := c.fontTemplate()
	key := aStrV(name).String()
	var ids []string
	for id, m := range st.maps {
		if _, ok := m[key]; !ok {
			continue
		}
		all := true
		for _, f := range t.funcs {
			if _, ok := m[aStrV(f).String()]; !ok {
				all = false
			}
		}
		if all {
			ids = append(ids, id)
		}
	}
	if len(ids) == 1 {
		if v := st.maps[ids[0]][key]; v.fn != nil && len(v.fn.Blocks) > 0 {
			return v, true
		}
	}
	if f := c.tmplFuncSSA(name); f != nil && len(f.Blocks) > 0 {
		return sv{k: svSym, s: "func:" + f.String(), fn: f}, true
	}
	return sv{}, false
}

// tmplFieldText: what a string field of the template data can hold, decided from every store
// into that field in the module (the data is assembled by the module: the struct type is
// unexported).  The field is *closed* when each stored value is — through phis and the results of
// module functions — a string constant or the library's rendering of a time with a constant
// layout ((time.Time).Format: the literal text of the layout, digits, a sign, and month, day and
// zone names — the same trust under which `.Date.Format "layout"` inside the template is not
// a string use at all).  For a closed field, literal is the concatenation of all constant text
// that can appear in it; a field that is not closed can hold any string.
func (c *Ctx) tmplFieldText(field string) (closed bool, literal, how string) {
	fiT := c.typeObj("type1", "fontInfo")
	obj, _, _ := types.LookupFieldOrMethod(fiT.Type(), true, fiT.Pkg(), field)
	fv, ok := obj.(*types.Var)
	if !ok || !fv.IsField() {
		return false, "", ""
	}
	closed = true
	var lits, hows []string
	seen := map[ssa.Value]bool{}
	var src func(v ssa.Value, depth int)
	src = func(v ssa.Value, depth int) {
		if seen[v] || !closed {
			return
		}
		seen[v] = true
		if k, ok := constString(v); ok {
			lits = append(lits, k)
			hows = append(hows, fmt.Sprintf("%q", k))
			return
		}
		switch x := v.(type) {
		case *ssa.Phi:
			for _, e := range x.Edges {
				src(e, depth)
			}
			return
		case *ssa.ChangeType:
			src(x.X, depth)
			return
		case *ssa.Call:
			sc := x.Call.StaticCallee()
			if sc == nil {
				break
			}
			if sc.String() == "(time.Time).Format" && len(x.Call.Args) == 2 {
				if l, ok := constString(x.Call.Args[1]); ok {
					lits = append(lits, l)
					hows = append(hows, fmt.Sprintf("a time in the layout %q", l))
					return
				}
				break
			}
			if c.inModule(sc) && len(sc.Blocks) > 0 && depth > 0 && sc.Signature.Results().Len() == 1 {
				nret := 0
				eachInstr(sc, func(ins ssa.Instruction) {
					if r, ok := ins.(*ssa.Return); ok && len(r.Results) == 1 {
						nret++
						src(r.Results[0], depth-1)
					}
				})
				if nret > 0 {
					return
				}
			}
		}
		closed = false
	}
	stores := 0
	for _, f := range c.modFuncs {
		eachInstr(f, func(ins ssa.Instruction) {
			st, ok := ins.(*ssa.Store)
			if !ok {
				return
			}
			fa, ok := st.Addr.(*ssa.FieldAddr)
			if !ok {
				return
			}
			pt, ok := fa.X.Type().Underlying().(*types.Pointer)
			if !ok {
				return
			}
			str, ok := pt.Elem().Underlying().(*types.Struct)
			if !ok || fa.Field >= str.NumFields() || str.Field(fa.Field) != fv {
				return
			}
			stores++
			src(st.Val, 3)
		})
	}
	if stores == 0 {
		return false, "", ""
	}
	sort.Strings(hows)
	return closed, strings.Join(lits, ""), strings.Join(dedupSorted(hows), " or ")
}

// writtenStringsReadBack (C10): a string of a font that was read — any byte string: the reader's
// literal strings can hold every byte — which the template writes as a PostScript string must be
// read back as itself, or the second reading differs from the first.  Every template function
// through which a string field is written under a key that the reader accepts as a String is
// evaluated end to end (from the state after the initialisers of the two packages, whatever
// helpers, tables or library objects it uses) on the cells of stringWriterCells, and its output
// is read back by the PLRM's rules for literal strings, to which the reader is held by C04.
func (c *Ctx) writtenStringsReadBack(tk []tmplKey, rk map[string]*readerKey) {
	st := c.aInitFrom("type1", c.aInit("postscript"))
	keysOf := map[string][]string{}
	var pipes []string
	nKeys := 0
	for _, k := range tk {
		if k.goType != "string" || k.pipe == "" {
			continue
		}
		if r := rk[k.key]; r == nil || !r.types["String"] {
			continue
		}
		if keysOf[k.pipe] == nil {
			pipes = append(pipes, k.pipe)
		}
		keysOf[k.pipe] = append(keysOf[k.pipe], "/"+k.key)
		nKeys++
	}
	for _, pipe := range pipes {
		construct := fmt.Sprintf("the strings written through %s (%s) are read back as the strings that were written", pipe, strings.Join(keysOf[pipe], " "))
		f, ok := c.tmplFuncValue(st, pipe)
		if !ok || f.fn.Signature.Params().Len() != 1 {
			c.undecided("CL-STRINGS", "type1 font program template", construct, token.NoPos, "the template function "+pipe+" could not be resolved")
			continue
		}
		diffs, cells := stringWriterCells("the template function "+pipe, func(in string) (string, string) {
			ev := st.newEval()
			ret := ev.aCallFn(f, []sv{aStrV(in)})
			if len(ret) < 1 || ret[0].k != svString {
				if ev.why == "" {
					ev.why = "no string result"
				}
				return "", ev.why
			}
			return ret[0].s, ""
		})
		c.check(len(diffs) == 0, "CL-STRINGS", "type1 font program template", construct, token.NoPos, fmt.Sprintf("%s evaluated for %d strings (every byte alone, in and next to parentheses, before a digit) and read back by the PLRM's rules", pipe, cells),
			"a string that was read is not written back as itself: "+joinMax(diffs, 4)+" — the font changes in a read/write/read cycle")
	}
	c.check(nKeys >= 4, "CL-STRINGS", "type1 font program template", "string-valued keys written through a string function are accounted for", token.NoPos, fmt.Sprint(nKeys), fmt.Sprintf("only %d keys of the template are written from a string field through a function and read as a String (the FontInfo strings are expected)", nKeys))
	c.floor("CL-STRINGS", 2)
}

// tmplFuncClass: what a one-argument template function does with a string that holds a byte
// which would change the program text if it were written as it is (a line end, a parenthesis, a
// percent sign, a space).  The function is evaluated on such strings:
//
//	"literal"  every one comes back as exactly one complete PostScript literal string
//	"refuses"  every one is refused (the function panics: the name writer)
//	"guarded"  each one is refused or comes back as a literal string
//	"noeol"    some come back as they are, but no result contains a CR, LF or FF
//	"raw"      a result contains a line end and is not a literal string
//	"?"        the function could not be evaluated (why says for which input)
func (c *Ctx) tmplFuncClass(st *aState, name string) (class, why string) {
	f, ok := c.tmplFuncValue(st, name)
	if !ok || f.fn.Signature.Params().Len() != 1 {
		return "?", "the template function " + name + " could not be resolved to a function of one argument"
	}
	nLit, nRef, nPlain, n := 0, 0, 0, 0
	for _, in := range []string{"x\ny", "x\ry", "x\fy", "x)y", "x(y", "x%y", "x y", "\n", "\r\n", ")", "("} {
		n++
		ev := st.newEval()
		ret := ev.aCallFn(f, []sv{aStrV(in)})
		panics := false
		for _, ef := range ev.effects {
			if ef.what == "panic" {
				panics = true
			}
		}
		switch {
		case panics:
			nRef++
		case len(ret) < 1 || ret[0].k != svString:
			return "?", fmt.Sprintf("%s could not be evaluated for %q (%s)", name, in, ev.why)
		default:
			out := ret[0].s
			if _, used, ok := plrmString([]byte(out + "Q")); ok && used == len(out) && strings.HasPrefix(out, "(") {
				nLit++
			} else if strings.ContainsAny(out, "\r\n\f") {
				return "raw", fmt.Sprintf("%s writes %q as %q", name, in, out)
			} else {
				nPlain++
			}
		}
	}
	switch {
	case nLit == n:
		return "literal", ""
	case nRef == n:
		return "refuses", ""
	case nPlain == 0:
		return "guarded", ""
	}
	return "noeol", ""
}

// commentSanitiser: a string written on a comment line of the font program (the %! header line,
// DSC comments) must not be able to end the line: the PLRM ends a comment at CR, LF and FF.
// Every template function that is applied to a value on a comment line is evaluated for every
// byte value in the middle of a string and for the line-end combinations; its result must not
// contain one of the three bytes.  A string field written on a comment line without a function
// must also be written through PN somewhere (which refuses such bytes: LEX-NAME).
func (c *Ctx) commentSanitiser() {
	t := c.fontTemplate()
	fi := c.typeObj("type1", "fontInfo").Type().Underlying().(*types.Struct)
	isStringField := map[string]bool{}
	for i := 0; i < fi.NumFields(); i++ {
		if b, ok := fi.Field(i).Type().Underlying().(*types.Basic); ok && b.Kind() == types.String {
			isStringField[fi.Field(i).Name()] = true
		}
	}
	st := c.aInit("type1")
	// a function that refuses (panics on) every string with a line end in it — the name writer
	refusing := map[string]bool{}
	refuses := func(name string) bool {
		if r, ok := refusing[name]; ok {
			return r
		}
		r := false
		if f, ok := c.tmplFuncValue(st, name); ok && f.fn.Signature.Params().Len() == 1 {
			r = true
			for _, in := range []string{"x\ry", "x\ny", "x\fy", "\r\n"} {
				ev := st.newEval()
				ev.aCallFn(f, []sv{aStrV(in)})
				panics := false
				for _, ef := range ev.effects {
					if ef.what == "panic" {
						panics = true
					}
				}
				if !panics {
					r = false
				}
			}
		}
		refusing[name] = r
		return r
	}
	viaPN := map[string]bool{}
	type use struct{ field, fn, action string }
	var uses []use
	for _, sec := range t.order {
		line := ""
		for _, it := range t.items(sec) {
			if it.action == "" {
				if i := strings.LastIndexAny(it.text, "\r\n\f"); i >= 0 {
					line = it.text[i+1:]
				} else {
					line += it.text
				}
				continue
			}
			an, ok := it.node.(*parse.ActionNode)
			if !ok {
				continue
			}
			cmds := an.Pipe.Cmds
			field, fn := "", ""
			if len(cmds) >= 1 && len(cmds[0].Args) >= 1 {
				if f, ok := cmds[0].Args[0].(*parse.FieldNode); ok && len(f.Ident) == 1 && len(cmds[0].Args) == 1 {
					field = f.Ident[0]
				}
				if id, ok := cmds[0].Args[0].(*parse.IdentifierNode); ok {
					fn = id.Ident // F .Field
					if len(cmds[0].Args) == 2 {
						if f, ok := cmds[0].Args[1].(*parse.FieldNode); ok && len(f.Ident) == 1 {
							field = f.Ident[0]
						}
					}
				}
			}
			if len(cmds) >= 2 && len(cmds[len(cmds)-1].Args) == 1 {
				if id, ok := cmds[len(cmds)-1].Args[0].(*parse.IdentifierNode); ok {
					fn = id.Ident
				}
			}
			if fn != "" && field != "" && refuses(fn) {
				viaPN[field] = true
			}
			if strings.Contains(line, "%") && !strings.Contains(line, "(") && isStringField[field] {
				// (a value that is not a string — the creation date — is formatted by the library
				// with a constant layout)
				uses = append(uses, use{field, fn, it.action})
			}
			line += "⟦⟧"
		}
	}
	decided := map[string]string{}
	n := 0
	for _, u := range uses {
		if u.fn == "" {
			{
				n++
				if closed, lit, how := c.tmplFieldText(u.field); closed && !strings.ContainsAny(lit, "\r\n\f") {
					c.ok("CL-ESCAPE", "type1 font program template", "comment line: `"+u.action+"` cannot contain a line end", token.NoPos, "every value the module stores into the field is "+how+": no CR, LF or FF in the constant text", "")
					continue
				}
				c.check(viaPN[u.field], "CL-ESCAPE", "type1 font program template", "comment line: `"+u.action+"` cannot contain a line end", token.NoPos, "also written through a function that refuses line ends (the name writer)", "the string field `"+u.action+"` is written on a comment line as it is: a CR, LF or FF in it ends the comment and the rest is executed (header injection)")
			}
			continue
		}
		why, done := decided[u.fn]
		if !done {
			fn, okF := c.tmplFuncValue(st, u.fn)
			if !okF {
				why = "the template function " + u.fn + " could not be resolved"
			} else {
				var inputs []string
				for b := 0; b < 256; b++ {
					inputs = append(inputs, "x"+string([]byte{byte(b)})+"y")
				}
				inputs = append(inputs, "\r", "\n", "\f", "\r\n", "\n\r", "\r\r", "\n\n", "a\rb\nc\fd\r\ne", "\r\n\r\n", "")
				var bad []string
				for _, in := range inputs {
					ev := st.newEval()
					ret := ev.aCallFn(fn, []sv{aStrV(in)})
					if len(ret) < 1 || ret[0].k != svString {
						bad = append(bad, fmt.Sprintf("%s could not be evaluated for %q (%s)", u.fn, in, ev.why))
						break
					}
					if i := strings.IndexAny(ret[0].s, "\r\n\f"); i >= 0 {
						bad = append(bad, fmt.Sprintf("%q is written as %q, which contains the line end %q", in, ret[0].s, ret[0].s[i]))
					}
				}
				why = joinMax(bad, 3)
			}
			decided[u.fn] = why
		}
		n++
		c.check(why == "", "CL-ESCAPE", "type1 font program template", "comment line: `"+u.action+"` cannot contain a line end", token.NoPos, "the function "+u.fn+" evaluated for every byte value and the line-end combinations: no CR, LF or FF in its result", "a value written on a comment line of the font program can end the line: "+why+" — the rest of the value is executed as PostScript or read as a DSC comment (header injection)")
	}
	c.check(n >= 1, "CL-ESCAPE", "type1 font program template", "values on comment lines are accounted for", token.NoPos, fmt.Sprint(n), "no value on a comment line of the template was found (the %! header line writes the font name and version)")
}

// closePathRule: the charstring command closepath closes the current sub-path — the Type 1 book
// attaches no condition to it.  One pass of the decoder's command loop is evaluated for the
// command under every assignment of the decoder's boolean state cells (sub-path open or closed,
// inside a flex sequence or not, whatever they are called): each time exactly one path command,
// ClosePath, must be appended to the glyph.  (The encoder writes one closepath per ClosePath, so
// a decoder that drops one under some state changes the outline in a write/read cycle.)
func (c *Ctx) closePathRule() {
	m := c.t1Machine()
	fname := "type1.(*decodeInfo).decodeCharString"
	code := []byte{byte(c.constInt("type1", "t1closepath"))}
	closeOp := fmt.Sprintf("Op:%d", c.constInt("type1", "OpClosePath"))
	aConcreteAll = true
	defer func() { aConcreteAll = false }()
	m.inlineHelpers = true
	first := m.runX(code, nil, nil, nil, nil)
	var names []string
	for n := range first.flags {
		names = append(names, n)
	}
	sort.Strings(names)
	var bad []string
	cells := 0
	for mask := 0; mask < 1<<len(names) && len(names) <= 6; mask++ {
		flags := map[string]bool{}
		var desc []string
		for i, n := range names {
			flags[n] = mask&(1<<i) != 0
			desc = append(desc, fmt.Sprintf("%s=%v", n, flags[n]))
		}
		cells++
		o := m.runX(code, nil, nil, nil, flags)
		emitted := strings.Join(o.appended, " ")
		switch {
		case !o.back && !o.ret:
			bad = append(bad, fmt.Sprintf("with %s the command is not completed (%s%s)", strings.Join(desc, ", "), o.errName, o.why))
		case strings.Count(emitted, "Op:") != 1 || strings.Count(emitted, closeOp) != 1:
			bad = append(bad, fmt.Sprintf("with %s the decoder appends %s to the glyph, expected one ClosePath", strings.Join(desc, ", "), "["+emitted+"]"))
		}
	}
	c.check(len(bad) == 0 && cells > 0, "T1-PATHARGS", fname, "t1closepath → one ClosePath, whatever the state of the decoder", m.fn.Pos(), fmt.Sprintf("%d assignments of the boolean state cells %v evaluated", cells, names), "closepath: "+joinMax(bad, 3)+" — the encoder writes closepath for every ClosePath of the glyph, so the outline changes in a write/read cycle")
}

// quantisationRule (C10): real-valued entries of the font dictionaries are written in a form that
// reads back as the same float64.  The template's own formatting of a float64 is Go's shortest
// representation that round-trips (trusted base).  (a) A real-valued field that is piped through
// a function of the template's FuncMap: the function is evaluated for a table of values that
// need up to 17 significant digits, integers beyond 2^24 and small magnitudes, and the text must
// parse back (strconv.ParseFloat, which is what the scanner uses) to the same value.  (b) No
// function on the write path narrows a float64 to float32 or formats with a bit size other
// than 64.
func (c *Ctx) quantisationRule() {
	t := c.fontTemplate()
	fi := c.typeObj("type1", "fontInfo").Type().Underlying().(*types.Struct)
	floatField := map[string]string{} // name → "scalar" | "list"
	for i := 0; i < fi.NumFields(); i++ {
		ft := fi.Field(i).Type().Underlying()
		isF := func(t types.Type) bool {
			b, ok := t.Underlying().(*types.Basic)
			return ok && b.Info()&types.IsFloat != 0
		}
		switch x := ft.(type) {
		case *types.Basic:
			if isF(x) {
				floatField[fi.Field(i).Name()] = "scalar"
			}
		case *types.Slice:
			if isF(x.Elem()) {
				floatField[fi.Field(i).Name()] = "list"
			}
		case *types.Array:
			if isF(x.Elem()) {
				floatField[fi.Field(i).Name()] = "list"
			}
		}
	}
	table := []float64{0, 1, -1, 0.5, -11.5, 0.039625, 0.1, -9.46232221, -75.123456789, 16777217, 0.0454545455, 1e-5, 123456.789012345, 1.0 / 3, 2.5e-7, 1e21, 4503599627370497}
	st := c.aInit("type1")
	n := 0
	for _, it := range t.allItems() {
		an, ok := it.node.(*parse.ActionNode)
		if !ok {
			continue
		}
		cmds := an.Pipe.Cmds
		field, fn := "", ""
		if len(cmds) >= 1 && len(cmds[0].Args) >= 1 {
			if f, ok := cmds[0].Args[0].(*parse.FieldNode); ok && len(f.Ident) == 1 && len(cmds[0].Args) == 1 {
				field = f.Ident[0]
			}
			if id, ok := cmds[0].Args[0].(*parse.IdentifierNode); ok && len(cmds[0].Args) == 2 {
				if f, ok := cmds[0].Args[1].(*parse.FieldNode); ok && len(f.Ident) == 1 {
					field, fn = f.Ident[0], id.Ident
				}
			}
		}
		if len(cmds) >= 2 && len(cmds[len(cmds)-1].Args) == 1 {
			if id, ok := cmds[len(cmds)-1].Args[0].(*parse.IdentifierNode); ok {
				fn = id.Ident
			}
		}
		kind := floatField[field]
		if kind == "" || fn == "" || len(cmds) > 2 {
			continue
		}
		n++
		construct := "`" + it.action + "` is written in a form that reads back as the same number"
		f := c.tmplFuncSSA(fn)
		if f == nil {
			c.undecided("CL-ROUNDING", "type1 font program template", construct, token.NoPos, "the template function "+fn+" could not be resolved")
			continue
		}
		var bad []string
		for _, x := range table {
			ev := st.newEval()
			arg := sv{k: svFloat, f: x}
			if kind == "list" {
				arg = ev.newList([]sv{{k: svFloat, f: x}, {k: svFloat, f: -x}})
			}
			ret := ev.runFunc(f, []sv{arg})
			if len(ret) < 1 || ret[0].k != svString {
				bad = append(bad, fmt.Sprintf("%s could not be evaluated for %v (%s)", fn, x, ev.why))
				break
			}
			toks := strings.Fields(strings.NewReplacer("[", " ", "]", " ", "{", " ", "}", " ").Replace(ret[0].s))
			want := []float64{x}
			if kind == "list" {
				want = []float64{x, -x}
			}
			okV := len(toks) == len(want)
			for i := 0; okV && i < len(toks); i++ {
				y, err := strconv.ParseFloat(toks[i], 64)
				if err != nil || y != want[i] {
					okV = false
				}
			}
			if !okV {
				bad = append(bad, fmt.Sprintf("%v is written as %q", x, ret[0].s))
			}
		}
		c.check(len(bad) == 0, "CL-ROUNDING", "type1 font program template", construct, token.NoPos, fmt.Sprintf("%s evaluated for %d values", fn, len(table)), "the number formatter "+fn+" applied to "+field+" loses precision: "+joinMax(bad, 4)+": a font that was read is changed by writing it (beyond the documented quantisation)")
	}
	// (b) narrowing on the write path
	roots := []*ssa.Function{c.method("type1", "Font", "Write"), c.method("type1", "Font", "WritePDF")}
	for name := range t.fnExpr {
		if f := c.tmplFuncSSA(name); f != nil {
			roots = append(roots, f)
		}
	}
	fiT := c.typeObj("type1", "fontInfo")
	for _, recv := range []types.Type{fiT.Type(), types.NewPointer(fiT.Type())} {
		ms := c.prog.MethodSets.MethodSet(recv)
		for i := 0; i < ms.Len(); i++ {
			if f := c.prog.MethodValue(ms.At(i)); f != nil {
				roots = append(roots, f)
			}
		}
	}
	seen := map[*ssa.Function]bool{}
	var sites []string
	var walk func(f *ssa.Function)
	isFloat := func(t types.Type, kind types.BasicKind) bool {
		b, ok := t.Underlying().(*types.Basic)
		return ok && b.Kind() == kind
	}
	walk = func(f *ssa.Function) {
		if f == nil || seen[f] || !c.inModule(f) {
			return
		}
		seen[f] = true
		eachInstr(f, func(ins ssa.Instruction) {
			switch x := ins.(type) {
			case *ssa.Convert:
				if isFloat(x.Type(), types.Float32) && isFloat(x.X.Type(), types.Float64) {
					sites = append(sites, "conversion of a float64 to float32 in "+c.fname(f)+" at "+c.pos(x.Pos()))
				}
			case *ssa.MakeClosure:
				walk(x.Fn.(*ssa.Function))
			}
			call, ok := ins.(ssa.CallInstruction)
			if !ok {
				return
			}
			if sc := call.Common().StaticCallee(); sc != nil {
				switch calleeName(sc) {
				case "strconv.FormatFloat", "strconv.AppendFloat":
					args := call.Common().Args
					if k, isC := constInt(args[len(args)-1]); !isC || k != 64 {
						sites = append(sites, calleeName(sc)+" with a bit size other than 64 in "+c.fname(f)+" at "+c.pos(call.Pos()))
					}
				}
				walk(sc)
			}
			for _, cl := range closuresOf(call.Common().Value) {
				walk(cl)
			}
		})
	}
	for _, r := range roots {
		walk(r)
	}
	sites = dedupSorted(sites)
	c.check(len(sites) == 0, "CL-ROUNDING", "type1 writer", "no value is narrowed to float32 on the write path (conversions, number formatting with bit size 32)", token.NoPos, fmt.Sprintf("%d functions of the writers and of the template's function map scanned; %d real-valued template entries go through a function", len(seen), n),
		"single-precision quantisation on the write path: "+joinMax(sites, 3)+": values with more than about 7 significant digits change when a font that was read is written")
}

// ---- ASCII85 strings (PLRM 3.2.2, 3.13.3)

// plrmA85 decodes the ASCII85 string at the start of in (after "<~"): value, bytes consumed
// including "~>", ok.  undef reports a group whose value exceeds 2^32-1, which the PLRM makes an
// error and for which this reference does not fix an outcome.
func plrmA85(in []byte) (out []byte, n int, ok, undef bool) {
	if len(in) < 2 || in[0] != '<' || in[1] != '~' {
		return nil, 0, false, false
	}
	i := 2
	var grp []byte
	flush := func(final bool) bool {
		if len(grp) == 0 {
			return true
		}
		if len(grp) == 1 {
			return false
		}
		k := len(grp)
		v := uint64(0)
		for j := 0; j < 5; j++ {
			d := uint64(84)
			if j < k {
				d = uint64(grp[j] - '!')
			}
			v = v*85 + d
		}
		if v > 0xffffffff {
			undef = true
		}
		b := []byte{byte(v >> 24), byte(v >> 16), byte(v >> 8), byte(v)}
		out = append(out, b[:k-1]...)
		grp = grp[:0]
		return true
	}
	for i < len(in) {
		b := in[i]
		i++
		switch {
		case b == '~':
			if !flush(true) {
				return nil, i, false, undef
			}
			if i < len(in) && in[i] == '>' {
				return out, i + 1, true, undef
			}
			return nil, i, false, undef
		case b <= 32:
		case b == 'z' && len(grp) == 0:
			out = append(out, 0, 0, 0, 0)
		case b >= '!' && b <= 'u':
			grp = append(grp, b)
			if len(grp) == 5 {
				flush(false)
			}
		default:
			return nil, i, false, undef
		}
	}
	return nil, i, false, undef
}

func (c *Ctx) base85Rules() {
	fn := c.method("postscript", "scanner", "ReadBase85String")
	fname := "postscript.(*scanner).ReadBase85String"
	cell := func(in string) string {
		want, n, wantOK, undef := plrmA85([]byte(in))
		if undef {
			return ""
		}
		m := c.newScan(in)
		// small arrays are values: the four bytes of a group may travel as a [4]byte (ext_d.go)
		m.ev.arrays = true
		ret := m.run(fn)
		if len(ret) != 2 {
			return fmt.Sprintf("%q could not be evaluated (%s)", in, m.why)
		}
		gotOK := ret[1].k == svNil
		if gotOK != wantOK {
			if wantOK {
				return fmt.Sprintf("%q is refused (it denotes %q)", in, want)
			}
			return fmt.Sprintf("%q is accepted although it is not a valid ASCII85 string", in)
		}
		if !wantOK {
			return ""
		}
		got, ok := aByteString(m.ev, ret[0])
		if !ok {
			return fmt.Sprintf("%q: the value read is not determined (%s)", in, m.ev.render(ret[0]))
		}
		if got != string(want) {
			return fmt.Sprintf("%q is read as %q, expected %q", in, got, want)
		}
		wantNext := -1
		if n < len(in) {
			wantNext = int(in[n])
		}
		if nb := m.nextByte(); nb != wantNext {
			return fmt.Sprintf("after %q the next byte delivered is %d, expected %d", in[:n], nb, wantNext)
		}
		return ""
	}
	var diffs []string
	cells := 0
	for b := 0; b < 256; b++ {
		one := string([]byte{byte(b)})
		for _, in := range []string{"<~" + one + "!!!!~>Q", "<~!" + one + "!!!~>Q", "<~!!!!" + one + "~>Q", "<~" + one + "~>Q"} {
			cells++
			if d := cell(in); d != "" {
				diffs = append(diffs, d)
			}
		}
	}
	c.check(len(diffs) == 0, "LEX-A85", fname, "ASCII85: '!'..'u' digits of radix 85, z only at a group start, white space skipped, ~ ends", fn.Pos(), fmt.Sprintf("%d (byte, position) cells evaluated", cells), "ASCII85 classifier: "+joinMax(diffs, 4))
	// groups: every length of data, encoded by the library's encoder, plus malformed endings
	diffs = nil
	var inputs []string
	samples := [][]byte{{}, {0}, {1}, {255}, {0, 0}, {1, 2, 3}, {0, 0, 0, 0}, {255, 255, 255, 255}, []byte("Man "), []byte("Man i"), []byte("Man is"), []byte("sure."), {0, 0, 0, 0, 1}, {1, 0, 0, 0, 0}, {0, 0, 0, 0, 0, 0, 0, 0}, []byte("\x80\x81\x82\x83\x84\x85\x86")}
	// data whose truncated digits are as large as possible: only the padding digit 84 in every
	// position restores the last byte
	for n := 1; n <= 3; n++ {
		mod := uint64(1)
		for j := 0; j < 4-n; j++ {
			mod *= 85
		}
		bestX, bestR := uint64(0), uint64(0)
		for x := uint64(0); x < 1<<(8*uint(n)) && x < 1<<16; x++ {
			if r := (x << (8 * uint(4-n))) % mod; r >= bestR {
				bestX, bestR = x, r
			}
		}
		smp := make([]byte, n)
		for j := 0; j < n; j++ {
			smp[n-1-j] = byte(bestX >> (8 * uint(j)))
		}
		samples = append(samples, smp)
	}
	for _, smp := range samples {
		buf := make([]byte, ascii85.MaxEncodedLen(len(smp)))
		k := ascii85.Encode(buf, smp)
		enc := string(buf[:k])
		inputs = append(inputs, "<~"+enc+"~>Q")
		if len(enc) > 2 {
			inputs = append(inputs, "<~"+enc[:2]+" \n"+enc[2:]+"\t~>Q")
		}
	}
	inputs = append(inputs, "<~~>Q", "<~!~>Q", "<~!!!!!!~>Q", "<~!!", "<~!!~", "<~!!~Q", "<~!z!!!~>Q", "<~!!!!z~>Q", "<~zz~>Q", "<~z!!~>Q", "<~!!!!!z~>Q", "<~!!v~>Q", "<~ ~>Q")
	for _, in := range inputs {
		if d := cell(in); d != "" {
			diffs = append(diffs, d)
		}
	}
	c.check(len(diffs) == 0, "LEX-A85", fname, "groups of five digits; a short final group is padded with digit 84", fn.Pos(), fmt.Sprintf("%d strings evaluated: data of every length modulo 4 encoded by encoding/ascii85, malformed endings", len(inputs)), "ASCII85 group handling: "+joinMax(diffs, 4))
}
