package main

import (
	"fmt"
	"go/token"
	"go/types"

	"golang.org/x/tools/go/ssa"
)

// ---- comparisons known at a block, through validating helpers ---------------------------------
//
// A range test may be performed by a helper whose result the operator tests:
//
//	if err := intp.checkSize("array", size, maxArraySize); err != nil { return err }
//
// On the edge where the helper's result is nil (or the tested boolean) the comparisons hold that
// dominate every return of the helper which can yield that result, with the helper's parameters
// replaced by the arguments of the call.  cmpFactsAt collects the comparisons known on entry to a
// block in this sense; for a test written in the function itself it gives what domConds+asCmp give.

type cmpFact struct {
	m   cmp    // the comparison, in terms of the values of the function the block belongs to
	cd  cond   // the If that establishes it (in the function that performs the comparison)
	via []cond // the tests of the helper's result in the calling functions, outermost first
}

func (c *Ctx) cmpFactsAt(b *ssa.BasicBlock, depth int) []cmpFact {
	var out []cmpFact
	for _, cd := range domConds(b) {
		if m, ok := asCmp(cd); ok {
			out = append(out, cmpFact{m: m, cd: cd})
		}
		if depth <= 0 {
			continue
		}
		call, wantNil, wantBool, ok := resultTest(cd)
		if !ok {
			continue
		}
		g := call.Common().StaticCallee()
		if g == nil || len(g.Blocks) == 0 || call.Common().IsInvoke() {
			continue
		}
		args := call.Common().Args
		if len(args) != len(g.Params) {
			continue
		}
		for _, f := range c.resultFacts(g, wantNil, wantBool, depth-1) {
			f.m.x = substParam(f.m.x, g, args)
			f.m.y = substParam(f.m.y, g, args)
			f.via = append([]cond{cd}, f.via...)
			out = append(out, f)
		}
	}
	return out
}

// resultTest: the condition (with its truth value) says that the last result of a call is nil, or
// that the boolean result of a call has a given value.
func resultTest(cd cond) (call *ssa.Call, wantNil bool, wantBool bool, ok bool) {
	v, truth := cd.v, cd.truth
	for {
		if u, isU := v.(*ssa.UnOp); isU && u.Op == token.NOT {
			v, truth = u.X, !truth
			continue
		}
		break
	}
	if cl := resultCall(v); cl != nil {
		if b, isB := cl.Type().Underlying().(*types.Basic); isB && b.Kind() == types.Bool {
			return cl, false, truth, true
		}
	}
	bo, isB := v.(*ssa.BinOp)
	if !isB || (bo.Op != token.EQL && bo.Op != token.NEQ) {
		return nil, false, false, false
	}
	isNil := (bo.Op == token.EQL) == truth
	if !isNil {
		return nil, false, false, false
	}
	for _, p := range [][2]ssa.Value{{bo.X, bo.Y}, {bo.Y, bo.X}} {
		if !isNilConst(p[1]) {
			continue
		}
		if cl := resultCall(p[0]); cl != nil {
			return cl, true, false, true
		}
	}
	return nil, false, false, false
}

// resultCall: v is the last result of a static call (the call itself, or the last component of its tuple).
func resultCall(v ssa.Value) *ssa.Call {
	v = origin(v)
	if ex, ok := v.(*ssa.Extract); ok {
		cl, isCall := ex.Tuple.(*ssa.Call)
		if !isCall {
			return nil
		}
		if t, isT := cl.Type().(*types.Tuple); !isT || ex.Index != t.Len()-1 {
			return nil
		}
		return cl
	}
	cl, _ := v.(*ssa.Call)
	if cl != nil {
		if _, isT := cl.Type().(*types.Tuple); isT {
			return nil
		}
	}
	return cl
}

// resultFacts: the comparisons that hold whenever g returns nil as its last result (wantNil) or the
// boolean wantBool: those common to all exits that can yield this result.
func (c *Ctx) resultFacts(g *ssa.Function, wantNil, wantBool bool, depth int) []cmpFact {
	var common []cmpFact
	first := true
	meet := func(fs []cmpFact) {
		if first {
			common, first = fs, false
			return
		}
		var keep []cmpFact
		for _, a := range common {
			for _, b := range fs {
				if a.cd.v == b.cd.v && a.cd.truth == b.cd.truth && len(a.via) == len(b.via) {
					keep = append(keep, a)
					break
				}
			}
		}
		common = keep
	}
	can := func(v ssa.Value) bool { // can v be the result asked for?
		if wantNil {
			if isNilConst(v) {
				return true
			}
			if c.errNameOf(v) != "" {
				return false
			}
			if _, isMI := origin(v).(*ssa.MakeInterface); isMI {
				return false
			}
			return true
		}
		if k, isC := constBool(v); isC {
			return k == wantBool
		}
		return true
	}
	for _, r := range returns(g) {
		if len(r.Results) == 0 {
			return nil
		}
		for _, v := range retValues(r, len(r.Results)-1) {
			if phi, isPhi := v.(*ssa.Phi); isPhi && phi.Block() == r.Block() {
				for i, e := range phi.Edges {
					if can(e) {
						meet(c.cmpFactsAt(phi.Block().Preds[i], depth))
					}
				}
				continue
			}
			if can(v) {
				meet(c.cmpFactsAt(r.Block(), depth))
			}
		}
	}
	return common
}

// substParam replaces a value that is (a conversion of) a parameter of g by the corresponding argument.
func substParam(v ssa.Value, g *ssa.Function, args []ssa.Value) ssa.Value {
	p, ok := stripConv(v).(*ssa.Parameter)
	if !ok {
		return v
	}
	for i, q := range g.Params {
		if q == p {
			return args[i]
		}
	}
	return v
}

// upperBoundCmps / lowerBoundCmps: the tightest constant bound the comparisons put on the value
// selected by `is` (inclusive), as upperBoundConst / lowerBoundConst do for conditions.
func boundOfCmp(m cmp, is func(ssa.Value) bool) (k int64, upper, lower, ok bool) {
	x, y, op := m.x, m.y, m.op
	if _, isC := constInt(origin(x)); isC && is(y) {
		x, y, op = y, x, swapOp(op)
	}
	if !is(x) {
		return 0, false, false, false
	}
	k, isC := constInt(stripConv(y))
	if !isC {
		return 0, false, false, false
	}
	switch op {
	case token.LSS:
		return k - 1, true, false, true
	case token.LEQ:
		return k, true, false, true
	case token.EQL:
		return k, true, true, true
	case token.GTR:
		return k + 1, false, true, true
	case token.GEQ:
		return k, false, true, true
	}
	return 0, false, false, false
}

func upperBoundCmps(fs []cmpFact, is func(ssa.Value) bool) (int64, bool) {
	best, found := int64(0), false
	for _, f := range fs {
		if k, up, _, ok := boundOfCmp(f.m, is); ok && up && (!found || k < best) {
			best, found = k, true
		}
	}
	return best, found
}

func lowerBoundCmps(fs []cmpFact, is func(ssa.Value) bool) (int64, bool) {
	best, found := int64(0), false
	for _, f := range fs {
		if k, _, lo, ok := boundOfCmp(f.m, is); ok && lo && (!found || k > best) {
			best, found = k, true
		}
	}
	return best, found
}

// failureOf: the block control goes to when the comparison of fact f does not hold, and the name of
// the PostScript error the operator then returns: the error returned at the failing edge, handed on
// unchanged by every caller that tests the helper's result (a caller that returns something else
// there determines the name itself).
func (c *Ctx) failureOf(f cmpFact) (*ssa.BasicBlock, string) {
	otherEdge := func(cd cond) *ssa.BasicBlock {
		if cd.truth {
			return cd.blk.Succs[1]
		}
		return cd.blk.Succs[0]
	}
	blk := otherEdge(f.cd)
	name := c.blockReturnsErr(blk)
	for i := len(f.via) - 1; i >= 0; i-- {
		ob := otherEdge(f.via[i])
		call, _, _, _ := resultTest(f.via[i])
		handsOn := false
		if len(ob.Instrs) > 0 && call != nil {
			if r, ok := ob.Instrs[len(ob.Instrs)-1].(*ssa.Return); ok && len(r.Results) > 0 {
				for _, v := range retValues(r, len(r.Results)-1) {
					if resultCall(v) == call {
						handsOn = true
					}
				}
			}
		}
		if !handsOn {
			name = c.blockReturnsErr(ob)
		}
	}
	return blk, name
}

// ---- the creation date printed through a method of the template data --------------------------
//
// dataMethodDateLayout: `{{.Name}}` where Name is a method of the template data (text/template calls
// a niladic method like it reads a field).  The method is evaluated on the SSA form with the
// receiver's fields holding what the writer put there (ext_d.go: evalWriterData); if the result is
// the text of the font's creation time in a constant layout, that layout is returned.
func (c *Ctx) dataMethodDateLayout(name string) (string, bool) {
	fiT := c.typeObj("type1", "fontInfo")
	m := c.methodByName("type1", fiT.Name(), name)
	if m == nil || len(m.Blocks) == 0 || len(m.Params) != 1 || m.Signature.Results().Len() == 0 {
		return "", false
	}
	execs, why := c.evalWriterData(c.method("type1", "Font", "Write"), c.constInt("type1", "FormatPFA"), false)
	if why != "" || len(execs) == 0 {
		return "", false
	}
	_, typs := c.fontFieldPaths()
	ev := &ssaEval{c: c, bind: map[ssa.Value]sv{}, mem: map[string]sv{}}
	ev.noInline = func(f *ssa.Function) bool { return !c.inModule(f) }
	for k, v := range execs[0].fields {
		ev.mem["d."+k] = v
	}
	recv := sv{k: svAddr, s: "d"}
	if _, isPtr := m.Params[0].Type().Underlying().(*types.Pointer); !isPtr {
		st, ok := m.Params[0].Type().Underlying().(*types.Struct)
		if !ok {
			return "", false
		}
		recv = sv{k: svStruct, s: "d"}
		for i := 0; i < st.NumFields(); i++ {
			recv.args = append(recv.args, sv{k: svString, s: st.Field(i).Name()})
			recv.tup = append(recv.tup, execs[0].fields[st.Field(i).Name()])
		}
	}
	ret := ev.runFunc(m, []sv{recv})
	if len(ret) == 0 {
		return "", false
	}
	for path, t := range typs {
		if t.String() != "time.Time" {
			continue
		}
		if l, ok := timeFormatOf(ret[0], path); ok {
			return l, true
		}
	}
	return "", false
}

// regularClass: the scanner's regular-character class — isRegular evaluated on the SSA form for all
// 256 byte values (as C04's LEX-REGULAR does, which also compares it with the PLRM).
func (c *Ctx) regularClass() (regular [256]bool, why string) {
	fn := c.fn("postscript", "isRegular")
	st := c.aInit("postscript")
	for b := 0; b < 256; b++ {
		ev := st.newEval()
		ret := ev.runFunc(fn, []sv{intV(int64(b))})
		if len(ret) != 1 || ret[0].k != svBool {
			return regular, fmt.Sprintf("isRegular is not evaluable for byte %d: %s", b, ev.why)
		}
		regular[b] = ret[0].b
	}
	return regular, ""
}
