package main

// Round 5 additions to the linear fact engine (worker A2).  Everything here decides the same
// conditions as before on more shapes of the code: a value that reaches its use through a join of
// memory states, through a helper's parameters, through the object a constructor returns, through
// the fields of a small local object that methods update, or through a library search function.

import (
	"fmt"
	"go/token"
	"go/types"
	"math/big"
	"sort"
	"strings"

	"golang.org/x/tools/go/ssa"
)

var _ = fmt.Sprint
var _ = token.ADD
var _ = types.Identical
var _ = big.NewInt
var _ = sort.Strings
var _ = strings.HasPrefix

// ---- 1. case split over a join of memory epochs ---------------------------------------------------
//
// `if len(s.peek) == 0 { …; s.peek = append(s.peek, b) }; s.peek[0]`: at the join the field has one
// value per incoming edge.  The length at the join is an atom of its own (epoch "phi@B"); like the
// φ of a local variable it is replaced, edge by edge, by the length the field has at the end of that
// predecessor, under the facts that hold on the edge.

type epochAtom struct {
	fi   *funcInfo
	base ssa.Value
	f    string
	ep   string
}

var epochAtoms = map[string]epochAtom{}

func noteEpochAtom(key string, fi *funcInfo, base ssa.Value, f, ep string) {
	if strings.HasPrefix(ep, "phi@") {
		epochAtoms[key] = epochAtom{fi, base, f, ep}
	}
}

func (fi *funcInfo) epochJoinSplit(a string, goals, facts []Lin, depth int) bool {
	ea, ok := epochAtoms[a]
	if !ok || ea.fi != fi {
		return false
	}
	// (only for a length the goal itself speaks about: the split is tried on failing proofs, and
	// most proofs that fail mention joined lengths somewhere in their facts)
	inGoal := false
	for _, g := range goals {
		if g.mentions(a) {
			inGoal = true
		}
	}
	if !inGoal {
		return false
	}
	var idx int
	if _, err := fmt.Sscanf(ea.ep, "phi@%d", &idx); err != nil || idx < 0 || idx >= len(fi.fn.Blocks) {
		return false
	}
	blk := fi.fn.Blocks[idx]
	if len(blk.Preds) < 2 {
		return false
	}
	if fi.busyEpoch == nil {
		fi.busyEpoch = map[string]bool{}
	}
	if fi.busyEpoch[a] {
		return false
	}
	fi.busyEpoch[a] = true
	defer delete(fi.busyEpoch, a)
	bname := fi.vname(ea.base)
	for _, pred := range blk.Preds {
		ep, ok := fi.outEpoch[pred][ea.f]
		if !ok {
			return false
		}
		var by Lin
		if r, ok := fi.rel[ep+"|"+ea.f+"|"+bname]; ok {
			by = r
		} else {
			key := fmt.Sprintf("len(%s.%s@%s)", bname, ea.f, ep)
			noteEpochAtom(key, fi, ea.base, ea.f, ep)
			by = atom(key)
		}
		if by.mentions(a) {
			return false
		}
		var g2, f2 []Lin
		for _, g := range goals {
			g2 = append(g2, g.subst(a, by))
		}
		for _, f := range facts {
			f2 = append(f2, f.subst(a, by))
		}
		for _, ef := range fi.edgeFacts(pred, blk) {
			f2 = append(f2, ef.subst(a, by))
		}
		fi.substs = append(fi.substs, substEntry{a, by})
		ok = fi.prove(g2, f2, depth+1)
		fi.substs = fi.substs[:len(fi.substs)-1]
		if !ok {
			return false
		}
	}
	return true
}

// ---- 2. comparators made by a factory ---------------------------------------------------------------
//
// `sort.Slice(x, lessBy(x))` with `func lessBy(s []T) func(i, j int) bool { return func(i, j int) bool
// { … s[i] … s[j] … } }`: the comparator's contract (0 <= i, j < len(x)) holds for the captured
// slice when, at every use of the factory, the result goes nowhere but into the comparator
// position of sort.Slice / sort.SliceStable and the factory's argument is the very value that is
// sorted.

func (fi *funcInfo) sortComparatorFactory(ins ssa.Instruction) bool {
	ix, ok := ins.(*ssa.IndexAddr)
	if !ok {
		return false
	}
	fn := fi.fn
	factory := fn.Parent()
	if factory == nil || len(fn.Params) != 2 || factory.Parent() != nil {
		return false
	}
	if _, ok := ix.Index.(*ssa.Parameter); !ok {
		return false
	}
	// the indexed slice: a captured variable of the factory that holds one of its parameters
	ld, ok := ix.X.(*ssa.UnOp)
	if !ok || ld.Op != token.MUL {
		return false
	}
	fv, ok := ld.X.(*ssa.FreeVar)
	if !ok {
		return false
	}
	fvIdx := -1
	for i, f := range fn.FreeVars {
		if f == fv {
			fvIdx = i
		}
	}
	for _, r := range *fv.Referrers() {
		switch r.(type) {
		case *ssa.UnOp, *ssa.DebugRef:
		default:
			return false // the closure assigns the captured variable
		}
	}
	// the factory: makes the closure once and returns it; the captured cell holds parameter k
	var mc *ssa.MakeClosure
	for _, b := range factory.Blocks {
		for _, in := range b.Instrs {
			if m, ok := in.(*ssa.MakeClosure); ok && m.Fn == fn {
				if mc != nil {
					return false
				}
				mc = m
			}
		}
	}
	if mc == nil || fvIdx < 0 || fvIdx >= len(mc.Bindings) {
		return false
	}
	for _, r := range *mc.Referrers() {
		switch r.(type) {
		case *ssa.Return, *ssa.DebugRef:
		default:
			return false
		}
	}
	cell, ok := mc.Bindings[fvIdx].(*ssa.Alloc)
	if !ok {
		return false
	}
	par, ok := singleStore(cell).(*ssa.Parameter)
	if !ok || par.Parent() != factory {
		return false
	}
	k := -1
	for i, p := range factory.Params {
		if p == par {
			k = i
		}
	}
	if k < 0 {
		return false
	}
	// every use of the factory
	sites := staticCallSites(factory)
	if len(sites) == 0 {
		return false
	}
	for _, call := range sites {
		refs := call.Referrers()
		if refs == nil {
			return false
		}
		n := 0
		for _, r := range *refs {
			if _, isDbg := r.(*ssa.DebugRef); isDbg {
				continue
			}
			n++
			sortCall, ok := r.(*ssa.Call)
			if !ok {
				return false
			}
			sc := sortCall.Call.StaticCallee()
			if sc == nil || (calleeName(sc) != "sort.Slice" && calleeName(sc) != "sort.SliceStable") || len(sortCall.Call.Args) != 2 {
				return false
			}
			if sortCall.Call.Args[1] != ssa.Value(call) {
				return false
			}
			sorted := sortCall.Call.Args[0]
			if mi, ok := sorted.(*ssa.MakeInterface); ok {
				sorted = mi.X
			}
			if !sameMemValue(sorted, call.Call.Args[k]) {
				return false
			}
		}
		if n != 1 {
			return false
		}
	}
	return true
}

// sameMemValue: the two values are the same SSA value, or two loads of the same location in one
// block with nothing in between that writes memory.
func sameMemValue(a, b ssa.Value) bool {
	if a == b || origin(a) == origin(b) {
		return true
	}
	if !sameValue(a, b) {
		return false
	}
	ia, ok1 := a.(ssa.Instruction)
	ib, ok2 := b.(ssa.Instruction)
	if !ok1 || !ok2 || ia.Block() != ib.Block() {
		return false
	}
	in := false
	for _, ins := range ia.Block().Instrs {
		if ins == ia || ins == ib {
			if in {
				return true
			}
			in = true
			continue
		}
		if !in {
			continue
		}
		switch x := ins.(type) {
		case *ssa.Store, *ssa.MapUpdate, *ssa.Send, *ssa.Go, *ssa.Defer:
			return false
		case *ssa.Call:
			if _, isB := x.Call.Value.(*ssa.Builtin); !isB {
				return false
			}
		}
	}
	return false
}

// ---- 3. lengths of the slice fields of an object a module function returns ------------------------
//
// `res := newMetrics()` where newMetrics stores a 256-element slice into the field of the object
// it returns: right after the call the field has the length it had at the callee's return.  The
// relation is attached to the memory epoch the call starts in the caller, keyed by the result
// value, exactly as a store in the caller itself would be.

func (fi *funcInfo) resultObjectLens() {
	for _, b := range fi.fn.Blocks {
		for i, ins := range b.Instrs {
			call, ok := ins.(*ssa.Call)
			if !ok {
				continue
			}
			g := call.Call.StaticCallee()
			if g == nil || !inMod(g) || len(g.Blocks) == 0 || g == fi.fn {
				continue
			}
			res := g.Signature.Results()
			for idx := 0; idx < res.Len(); idx++ {
				pt, ok := res.At(idx).Type().Underlying().(*types.Pointer)
				if !ok {
					continue
				}
				if _, ok := pt.Elem().Underlying().(*types.Struct); !ok {
					continue
				}
				var obj ssa.Value = call
				if res.Len() > 1 {
					obj = nil
					if refs := call.Referrers(); refs != nil {
						for _, r := range *refs {
							if ex, ok := r.(*ssa.Extract); ok && ex.Index == idx {
								obj = ex
							}
						}
					}
				}
				if obj == nil {
					continue
				}
				for f := range fi.fields {
					if fi.intFields[f] || strings.HasPrefix(f, "cell:") || !strings.HasPrefix(f, types.TypeString(pt.Elem(), nil)+".") {
						continue
					}
					if k, ok := resultFieldLen(g, idx, f); ok {
						fi.rel[fmt.Sprintf("call@%d.%d", b.Index, i)+"|"+f+"|"+fi.vname(obj)] = konst(k)
					}
				}
			}
		}
	}
}

type resFieldKey struct {
	g   *ssa.Function
	idx int
	f   string
}

var resultFieldLenCache = map[resFieldKey]*int64{}
var resultFieldLenBusy = map[*ssa.Function]bool{}

// resultFieldLen: slice field f of the object returned as result idx of g has the constant
// length k at every return that yields an object.
func resultFieldLen(g *ssa.Function, idx int, f string) (int64, bool) {
	key := resFieldKey{g, idx, f}
	if r, ok := resultFieldLenCache[key]; ok {
		if r == nil {
			return 0, false
		}
		return *r, true
	}
	if resultFieldLenBusy[g] {
		return 0, false
	}
	resultFieldLenBusy[g] = true
	defer delete(resultFieldLenBusy, g)
	gfi := newFuncInfo(g)
	var val *int64
	n := 0
	for _, r := range returns(g) {
		if len(r.Results) <= idx {
			resultFieldLenCache[key] = nil
			return 0, false
		}
		v := r.Results[idx]
		if isNilConst(v) {
			continue
		}
		n++
		ep, ok := gfi.outEpoch[r.Block()][f]
		rel, ok2 := gfi.rel[ep+"|"+f+"|"+gfi.vname(canonBase(v))]
		if !ok || !ok2 || !rel.isConst() || !rel.c.IsInt() || !rel.c.Num().IsInt64() {
			resultFieldLenCache[key] = nil
			return 0, false
		}
		k := rel.c.Num().Int64()
		if val != nil && *val != k {
			resultFieldLenCache[key] = nil
			return 0, false
		}
		val = &k
	}
	if n == 0 || val == nil {
		resultFieldLenCache[key] = nil
		return 0, false
	}
	resultFieldLenCache[key] = val
	return *val, true
}

// ---- 4. a type established by the predicate of a library search -----------------------------------
//
// `i := slices.IndexFunc(s, func(k K) bool { _, ok := m[k].(T); return ok }); if i < 0 { return };
// m[s[i]].(T)`: a non-negative result of IndexFunc is an index whose element satisfied the
// predicate (library contract), the predicate returns true only after the `, ok` assertion of
// m[k] to T succeeded, and nothing between the search and the assertion writes memory — so the
// assertion repeats one that succeeded on the same value.

func (c *Ctx) assertBySearchPredicate(x *ssa.TypeAssert) bool {
	lk, ok := origin(x.X).(*ssa.Lookup)
	if !ok || lk.CommaOk {
		return false
	}
	if _, isMap := lk.X.Type().Underlying().(*types.Map); !isMap {
		return false
	}
	// the key: s[i]
	var sl, iv ssa.Value
	switch k := origin(lk.Index).(type) {
	case *ssa.UnOp:
		if ia, ok := k.X.(*ssa.IndexAddr); ok && k.Op == token.MUL {
			sl, iv = ia.X, ia.Index
		}
	case *ssa.Index:
		sl, iv = k.X, k.Index
	}
	if sl == nil {
		return false
	}
	search, ok := origin(iv).(*ssa.Call)
	if !ok || search.Parent() != x.Parent() {
		return false
	}
	sc := search.Call.StaticCallee()
	if sc == nil || calleeName(sc) != "slices.IndexFunc" || len(search.Call.Args) != 2 {
		return false
	}
	if origin(search.Call.Args[0]) != origin(sl) {
		return false
	}
	// i >= 0 at the assertion
	fi := newFuncInfo(x.Parent())
	if !fi.prove([]Lin{fi.term(search)}, fi.factsAt(x.Block(), x), 1) {
		return false
	}
	// the predicate
	var pred *ssa.Function
	var bindings []ssa.Value
	switch p := search.Call.Args[1].(type) {
	case *ssa.MakeClosure:
		pred, _ = p.Fn.(*ssa.Function)
		bindings = p.Bindings
	case *ssa.Function:
		pred = p
	}
	if pred == nil || len(pred.Params) != 1 || len(pred.Blocks) == 0 {
		return false
	}
	sameMap := func(m ssa.Value) bool {
		m = origin(m)
		if m == origin(lk.X) {
			return true
		}
		// a load of a captured variable of the enclosing function that is assigned once
		if u, ok := m.(*ssa.UnOp); ok && u.Op == token.MUL {
			if fv, ok := u.X.(*ssa.FreeVar); ok {
				for i, f := range pred.FreeVars {
					if f == fv && i < len(bindings) {
						if al, ok := bindings[i].(*ssa.Alloc); ok {
							if s := singleStore(al); s != nil && origin(s) == origin(lk.X) {
								return true
							}
						}
					}
				}
			}
		}
		return false
	}
	established := func(v ssa.Value) bool {
		ex, ok := origin(v).(*ssa.Extract)
		if !ok || ex.Index != 1 {
			return false
		}
		ta, ok := ex.Tuple.(*ssa.TypeAssert)
		if !ok || !ta.CommaOk || !types.Identical(ta.AssertedType, x.AssertedType) {
			return false
		}
		l2, ok := origin(ta.X).(*ssa.Lookup)
		if !ok || l2.CommaOk || origin(l2.Index) != ssa.Value(pred.Params[0]) {
			return false
		}
		return sameMap(l2.X)
	}
	nret := 0
	for _, r := range returns(pred) {
		if len(r.Results) != 1 {
			return false
		}
		for _, v := range retValues(r, 0) {
			nret++
			if b, isC := constBool(v); isC && !b {
				continue
			}
			if !established(v) {
				return false
			}
		}
	}
	if nret == 0 {
		return false
	}
	// the predicate itself, and everything between the search and the assertion, writes nothing
	writes := func(ins ssa.Instruction) bool {
		switch y := ins.(type) {
		case *ssa.Store, *ssa.MapUpdate, *ssa.Send, *ssa.Go, *ssa.Defer:
			return true
		case *ssa.Call:
			if _, isB := y.Call.Value.(*ssa.Builtin); !isB {
				return true
			}
		}
		return false
	}
	for _, b := range pred.Blocks {
		for _, ins := range b.Instrs {
			if writes(ins) {
				return false
			}
		}
	}
	// blocks on a path from the search to the assertion
	fwd := map[*ssa.BasicBlock]bool{}
	var walk func(b *ssa.BasicBlock)
	walk = func(b *ssa.BasicBlock) {
		if fwd[b] {
			return
		}
		fwd[b] = true
		if b == x.Block() {
			return
		}
		for _, s := range b.Succs {
			walk(s)
		}
	}
	if search.Block() != x.Block() {
		for _, s := range search.Block().Succs {
			walk(s)
		}
	}
	bwd := map[*ssa.BasicBlock]bool{}
	var back func(b *ssa.BasicBlock)
	back = func(b *ssa.BasicBlock) {
		if bwd[b] {
			return
		}
		bwd[b] = true
		if b == search.Block() {
			return
		}
		for _, p := range b.Preds {
			back(p)
		}
	}
	back(x.Block())
	if !bwd[search.Block()] {
		return false
	}
	if fwd[search.Block()] && search.Block() != x.Block() {
		return false // the search sits in a loop that can come round again before the assertion
	}
	for _, b := range x.Parent().Blocks {
		between := fwd[b] && bwd[b] || b == search.Block() || b == x.Block()
		if !between {
			continue
		}
		after := b != search.Block()
		for _, ins := range b.Instrs {
			if ins == ssa.Instruction(search) {
				after = true
				continue
			}
			if ins == ssa.Instruction(x) {
				break
			}
			if after && writes(ins) {
				return false
			}
		}
	}
	return true
}

// ---- 5. entry facts found from the goal (abduction) -----------------------------------------------
//
// The fixed family of candidate entry facts (facts_interproc.go) does not contain a relation such
// as 2k-1 <= len(b) between two parameters of a helper.  When a proof inside a helper fails, the
// relation that is missing is computed instead of guessed: the facts at the site together with the
// negated goal are projected (Fourier–Motzkin) onto the parameters; every constraint c >= 0 of the
// projection is necessary for a counterexample, so c <= -1 at every call site refutes it.  Such a
// constraint becomes an entry fact of the helper when the callers' own provers show it at every
// call site (the helper has static calls only) — the same criterion as for the fixed family.

func projectOnto(cs []Lin, keep func(string) bool) ([]Lin, bool) {
	for iter := 0; iter < 64; iter++ {
		cnt := map[string][2]int{}
		for _, c := range cs {
			for a, v := range c.coef {
				if keep(a) {
					continue
				}
				x := cnt[a]
				if v.Sign() > 0 {
					x[0]++
				} else {
					x[1]++
				}
				cnt[a] = x
			}
		}
		if len(cnt) == 0 {
			return cs, true
		}
		var names []string
		for a := range cnt {
			names = append(names, a)
		}
		sort.Strings(names)
		best, bestCost := "", -1
		for _, a := range names {
			x := cnt[a]
			cost := x[0]*x[1] - x[0] - x[1]
			if bestCost == -1 || cost < bestCost {
				best, bestCost = a, cost
			}
		}
		var pos, negs, others []Lin
		for _, c := range cs {
			v, ok := c.coef[best]
			switch {
			case !ok:
				others = append(others, c)
			case v.Sign() > 0:
				pos = append(pos, c)
			default:
				negs = append(negs, c)
			}
		}
		for _, p := range pos {
			for _, n := range negs {
				a := p.coef[best]
				b := new(big.Rat).Neg(n.coef[best])
				comb := p.scale(b).add(n.scale(a))
				delete(comb.coef, best)
				others = append(others, comb)
			}
		}
		if len(others) > 2000 {
			return nil, false
		}
		cs = dedupLin(others)
	}
	return nil, false
}

// integral scales a linear form by the least common multiple of its denominators.
func integral(l Lin) Lin {
	m := big.NewInt(1)
	mul := func(r *big.Rat) {
		d := r.Denom()
		g := new(big.Int).GCD(nil, nil, m, d)
		m.Mul(m, new(big.Int).Div(d, g))
	}
	for _, v := range l.coef {
		mul(v)
	}
	mul(l.c)
	return l.scale(new(big.Rat).SetInt(m))
}

func (fi *funcInfo) abduceEntryFacts(goals []Lin, factsIn []Lin) bool {
	fn := fi.fn
	sites := staticCallSites(fn)
	if len(sites) == 0 || len(sites) > 8 {
		return false
	}
	fi.entryFacts() // fills the cache with the fixed family
	// what a parameter atom is in a caller
	type tr func(cfi *funcInfo, call *ssa.Call) Lin
	trans := map[string]tr{}
	for i, p := range fn.Params {
		i := i
		if _, _, isInt := isIntType(p.Type()); isInt {
			t := fi.term(p)
			if len(t.coef) == 1 && t.c.Sign() == 0 {
				for a := range t.coef {
					trans[a] = func(cfi *funcInfo, call *ssa.Call) Lin { return cfi.term(call.Call.Args[i]) }
				}
			}
		}
		switch u := p.Type().Underlying().(type) {
		case *types.Slice:
			trans["len("+fi.vname(p)+")"] = func(cfi *funcInfo, call *ssa.Call) Lin { return cfi.lenOf(call.Call.Args[i]) }
		case *types.Basic:
			if u.Info()&types.IsString != 0 {
				trans["len("+fi.vname(p)+")"] = func(cfi *funcInfo, call *ssa.Call) Lin { return cfi.lenOf(call.Call.Args[i]) }
			}
		}
	}
	if len(trans) == 0 {
		return false
	}
	keep := func(a string) bool { return trans[a] != nil }
	facts, _ := splitNEQ(factsIn)
	fs := append(append([]Lin{}, facts...), fi.rangeFacts(append(append([]Lin{}, goals...), facts...)...)...)
	fs = append(fs, fi.divisionFacts(append(append([]Lin{}, goals...), fs...))...)
	fs = dedupLin(fs)
	found := false
	for _, g := range goals {
		if entails(fs, g) {
			continue
		}
		proj, ok := projectOnto(append(append([]Lin{}, fs...), g.neg().addK(-1)), keep)
		if !ok {
			continue
		}
		var cands []Lin
		for _, c := range proj {
			if c.isConst() {
				continue
			}
			cands = append(cands, integral(c).neg().addK(-1))
		}
		sort.Slice(cands, func(i, j int) bool { return cands[i].String() < cands[j].String() })
		if len(cands) > 16 {
			cands = cands[:16]
		}
		for _, e := range cands {
			if entails(fs, e) {
				continue // nothing new
			}
			holds := true
			for _, call := range sites {
				cfi := newFuncInfo(call.Parent())
				goal := konst(0)
				goal.c.Set(e.c)
				for a, k := range e.coef {
					goal = goal.addScaled(trans[a](cfi, call), k)
				}
				if !cfi.prove([]Lin{goal}, cfi.factsAt(call.Block(), call), 1) {
					holds = false
					break
				}
			}
			if holds {
				entryFactCache[fn] = append(entryFactCache[fn], e)
				fs = append(fs, e)
				found = true
				break
			}
		}
	}
	return found
}

// ---- 6. integer fields of a small local object ----------------------------------------------------
//
// Parallel locals that became a local struct with methods (`pos`/`val` → `grp a85Group` with
// push/pad/bytes): the counter is no longer a φ of the function but a field that callees update.
// For an object that never leaves the function except as the receiver/argument of static module
// calls which themselves only read and write its fields, the values of its integer fields are
// followed by an interval analysis of the function (callees are analysed with the state at the
// call; a boolean result that compares a field with a constant refines the state on the branch
// that tests it).  The interval at a load becomes a range fact of the load's atom.

type ivl struct{ lo, hi int64 }

const ivlInf = int64(1) << 62

func (a ivl) join(b ivl) ivl {
	if b.lo < a.lo {
		a.lo = b.lo
	}
	if b.hi > a.hi {
		a.hi = b.hi
	}
	return a
}

func clampIvl(lo, hi *big.Int) ivl {
	r := ivl{-ivlInf, ivlInf}
	if lo != nil && lo.IsInt64() && lo.Int64() > -ivlInf {
		r.lo = lo.Int64()
	}
	if hi != nil && hi.IsInt64() && hi.Int64() < ivlInf {
		r.hi = hi.Int64()
	}
	return r
}

func typeIvl(t types.Type) ivl {
	lo, hi := typeRange(t)
	return clampIvl(lo, hi)
}

type objField struct {
	iv  ivl
	mod interface{} // the instruction (or join block) that last determined the value
}

type objState map[int]objField

func (s objState) clone() objState {
	r := objState{}
	for k, v := range s {
		r[k] = v
	}
	return r
}

func (s objState) key() string {
	var ks []int
	for k := range s {
		ks = append(ks, k)
	}
	sort.Ints(ks)
	var sb strings.Builder
	for _, k := range ks {
		fmt.Fprintf(&sb, "%d:[%d,%d];", k, s[k].iv.lo, s[k].iv.hi)
	}
	return sb.String()
}

// fieldPred: the boolean result of a callee is `field op k` for the state at its return.
type fieldPred struct {
	f  int
	op token.Token
	k  int64
}

type objSummary struct {
	exit     objState
	modified map[int]bool
	pred     *fieldPred
	ok       bool
}

var objSummaryCache = map[string]*objSummary{}
var objSummaryBusy = map[*ssa.Function]bool{}

// intFieldsOf: the indices of the integer fields of the struct obj points to.
func intFieldsOf(obj ssa.Value) (map[int]types.Type, bool) {
	pt, ok := obj.Type().Underlying().(*types.Pointer)
	if !ok {
		return nil, false
	}
	st, ok := pt.Elem().Underlying().(*types.Struct)
	if !ok {
		return nil, false
	}
	out := map[int]types.Type{}
	for i := 0; i < st.NumFields(); i++ {
		if _, _, isInt := isIntType(st.Field(i).Type()); isInt {
			out[i] = st.Field(i).Type()
		}
	}
	return out, len(out) > 0
}

// objUsesOK: the pointer is used only to read and write fields, to copy the whole value, and as an
// argument of static module calls whose parameter is used in the same way.
func objUsesOK(obj ssa.Value, depth int, stack map[*ssa.Function]bool) bool {
	if depth > 3 || obj.Referrers() == nil {
		return false
	}
	for _, r := range *obj.Referrers() {
		switch x := r.(type) {
		case *ssa.DebugRef:
		case *ssa.FieldAddr:
			if x.X != obj || x.Referrers() == nil {
				return false
			}
			for _, rr := range *x.Referrers() {
				switch y := rr.(type) {
				case *ssa.DebugRef:
				case *ssa.UnOp:
					if y.Op != token.MUL {
						return false
					}
				case *ssa.Store:
					if y.Addr != ssa.Value(x) {
						return false
					}
				default:
					return false
				}
			}
		case *ssa.UnOp:
			if x.Op != token.MUL {
				return false
			}
		case *ssa.Store:
			if x.Addr != obj {
				return false
			}
		case *ssa.Call:
			g := x.Call.StaticCallee()
			if g == nil || !inMod(g) || len(g.Blocks) == 0 || x.Call.IsInvoke() || stack[g] || g.Parent() != nil {
				return false
			}
			if x.Call.Value == obj {
				return false
			}
			n, at := 0, -1
			for i, a := range x.Call.Args {
				if a == obj {
					n++
					at = i
				}
			}
			if n != 1 || at >= len(g.Params) {
				return false
			}
			stack[g] = true
			ok := objUsesOK(g.Params[at], depth+1, stack)
			delete(stack, g)
			if !ok {
				return false
			}
		default:
			return false
		}
	}
	return true
}

type objRun struct {
	fn     *ssa.Function
	obj    ssa.Value
	fields map[int]types.Type
	loadIv map[*ssa.UnOp]ivl
	loadAt map[*ssa.UnOp]interface{}
	callAt map[*ssa.Call]map[int]interface{}
	callPr map[*ssa.Call]*fieldPred
	depth  int
}

func (r *objRun) fieldOfAddr(a ssa.Value) (int, bool) {
	fa, ok := a.(*ssa.FieldAddr)
	if !ok || fa.X != r.obj {
		return 0, false
	}
	_, isInt := r.fields[fa.Field]
	return fa.Field, isInt
}

func (r *objRun) valIvl(v ssa.Value, busy map[ssa.Value]bool) ivl {
	top := ivl{-ivlInf, ivlInf}
	if _, _, isInt := isIntType(v.Type()); isInt {
		top = typeIvl(v.Type())
	}
	if busy[v] {
		return top
	}
	busy[v] = true
	defer delete(busy, v)
	fit := func(x ivl) ivl {
		if x.lo < top.lo || x.hi > top.hi {
			return top // the operation may wrap around
		}
		return x
	}
	switch x := v.(type) {
	case *ssa.Const:
		if k, ok := constIntVal(x); ok && k > -ivlInf && k < ivlInf {
			return ivl{k, k}
		}
	case *ssa.UnOp:
		if x.Op == token.MUL {
			if iv, ok := r.loadIv[x]; ok {
				return iv
			}
		}
	case *ssa.BinOp:
		if x.Op == token.ADD || x.Op == token.SUB {
			a, b := r.valIvl(x.X, busy), r.valIvl(x.Y, busy)
			if a.lo <= -ivlInf || a.hi >= ivlInf || b.lo <= -ivlInf || b.hi >= ivlInf {
				return top
			}
			if x.Op == token.ADD {
				return fit(ivl{a.lo + b.lo, a.hi + b.hi})
			}
			return fit(ivl{a.lo - b.hi, a.hi - b.lo})
		}
	case *ssa.Phi:
		var res *ivl
		for _, e := range x.Edges {
			iv := r.valIvl(e, busy)
			if res == nil {
				res = &iv
			} else {
				j := res.join(iv)
				res = &j
			}
		}
		if res != nil {
			return fit(*res)
		}
	case *ssa.ChangeType:
		return fit(r.valIvl(x.X, busy))
	case *ssa.Convert:
		if _, _, ok := isIntType(x.X.Type()); ok {
			return fit(r.valIvl(x.X, busy))
		}
	}
	return top
}

func refineIvl(iv ivl, op token.Token, k int64, truth bool) (ivl, bool) {
	if !truth {
		switch op {
		case token.LSS:
			op = token.GEQ
		case token.LEQ:
			op = token.GTR
		case token.GTR:
			op = token.LEQ
		case token.GEQ:
			op = token.LSS
		case token.EQL:
			op = token.NEQ
		case token.NEQ:
			op = token.EQL
		}
	}
	switch op {
	case token.LSS:
		if k-1 < iv.hi {
			iv.hi = k - 1
		}
	case token.LEQ:
		if k < iv.hi {
			iv.hi = k
		}
	case token.GTR:
		if k+1 > iv.lo {
			iv.lo = k + 1
		}
	case token.GEQ:
		if k > iv.lo {
			iv.lo = k
		}
	case token.EQL:
		if k > iv.lo {
			iv.lo = k
		}
		if k < iv.hi {
			iv.hi = k
		}
	case token.NEQ:
		if iv.lo == k {
			iv.lo++
		}
		if iv.hi == k {
			iv.hi--
		}
	}
	return iv, iv.lo <= iv.hi
}

// condPred: the condition as `field op k` on a load of a field of the object that is still current
// in state st, or on the result of a callee with such a summary.
func (r *objRun) condPred(v ssa.Value, st objState) (*fieldPred, bool, bool) {
	truth := true
	for {
		if u, ok := v.(*ssa.UnOp); ok && u.Op == token.NOT {
			v, truth = u.X, !truth
			continue
		}
		break
	}
	switch x := v.(type) {
	case *ssa.BinOp:
		op := x.Op
		var ld ssa.Value
		var k int64
		if kk, ok := constIntVal(x.Y); ok {
			ld, k = x.X, kk
		} else if kk, ok := constIntVal(x.X); ok {
			ld, k, op = x.Y, kk, swapOp(op)
		} else {
			return nil, false, false
		}
		switch op {
		case token.LSS, token.LEQ, token.GTR, token.GEQ, token.EQL, token.NEQ:
		default:
			return nil, false, false
		}
		u, ok := ld.(*ssa.UnOp)
		if !ok || u.Op != token.MUL {
			return nil, false, false
		}
		f, ok := r.fieldOfAddr(u.X)
		if !ok || r.loadAt[u] == nil || r.loadAt[u] != st[f].mod {
			return nil, false, false
		}
		return &fieldPred{f, op, k}, truth, true
	case *ssa.Call:
		p := r.callPr[x]
		if p == nil || r.callAt[x] == nil || r.callAt[x][p.f] != st[p.f].mod {
			return nil, false, false
		}
		return p, truth, true
	}
	return nil, false, false
}

// run: the interval analysis of r.fn for r.obj, starting from the given state (nil: the object is
// made by the function itself).  Returns the state at the returns.
func (r *objRun) run(entry objState) (*objSummary, bool) {
	fn := r.fn
	type edge struct{ from, to *ssa.BasicBlock }
	in := map[*ssa.BasicBlock]objState{}
	outE := map[edge]objState{}
	visits := map[*ssa.BasicBlock]int{}
	sum := &objSummary{modified: map[int]bool{}, ok: true}
	zero := func(mod interface{}) objState {
		s := objState{}
		for f := range r.fields {
			s[f] = objField{ivl{0, 0}, mod}
		}
		return s
	}
	if entry == nil {
		entry = zero(fn)
	}
	type blockMark struct {
		b *ssa.BasicBlock
		f int
	}
	work := []*ssa.BasicBlock{fn.Blocks[0]}
	in[fn.Blocks[0]] = entry.clone()
	queued := map[*ssa.BasicBlock]bool{fn.Blocks[0]: true}
	var exits []objState
	exitAt := map[*ssa.Return]objState{}
	steps := 0
	// the intervals of loaded values feed the stores of other blocks: after the work list has run
	// dry, every block is processed again until the loaded intervals are stable as well
	loadKey := func() string {
		var ks []string
		for u, iv := range r.loadIv {
			ks = append(ks, fmt.Sprintf("%s:[%d,%d]", u.Name(), iv.lo, iv.hi))
		}
		sort.Strings(ks)
		return strings.Join(ks, ";")
	}
	for pass := 0; ; pass++ {
		if pass > 60 {
			return nil, false
		}
		before := loadKey()
		if pass > 0 {
			for _, b := range fn.Blocks {
				if _, ok := in[b]; ok && !queued[b] {
					queued[b] = true
					work = append(work, b)
				}
			}
		}
		for len(work) > 0 {
			steps++
			if steps > 20000 {
				return nil, false
			}
			b := work[0]
			work = work[1:]
			queued[b] = false
			visits[b]++
			st := in[b].clone()
			for _, ins := range b.Instrs {
				switch x := ins.(type) {
				case *ssa.Alloc:
					if ssa.Value(x) == r.obj {
						st = zero(x)
					}
				case *ssa.UnOp:
					if x.Op == token.MUL {
						if f, ok := r.fieldOfAddr(x.X); ok {
							if old, seen := r.loadIv[x]; seen {
								r.loadIv[x] = old.join(st[f].iv)
							} else {
								r.loadIv[x] = st[f].iv
							}
							r.loadAt[x] = st[f].mod
						}
					}
				case *ssa.Store:
					if x.Addr == r.obj {
						if c, ok := x.Val.(*ssa.Const); ok && c.Value == nil {
							st = zero(x)
						} else {
							for f, t := range r.fields {
								st[f] = objField{typeIvl(t), x}
							}
						}
						for f := range r.fields {
							sum.modified[f] = true
						}
					} else if f, ok := r.fieldOfAddr(x.Addr); ok {
						iv := r.valIvl(x.Val, map[ssa.Value]bool{})
						t := typeIvl(r.fields[f])
						if iv.lo < t.lo || iv.hi > t.hi {
							iv = t
						}
						st[f] = objField{iv, x}
						sum.modified[f] = true
					}
				case *ssa.Call:
					at := -1
					for i, a := range x.Call.Args {
						if a == r.obj {
							at = i
						}
					}
					if at < 0 {
						continue
					}
					g := x.Call.StaticCallee()
					cs := objCalleeSummary(g, at, st, r.depth+1)
					if cs == nil || !cs.ok {
						return nil, false
					}
					for f := range r.fields {
						if cs.modified[f] {
							st[f] = objField{cs.exit[f].iv, x}
							sum.modified[f] = true
						}
					}
					snap := map[int]interface{}{}
					for f := range r.fields {
						snap[f] = st[f].mod
					}
					r.callAt[x] = snap
					r.callPr[x] = cs.pred
				case *ssa.Return:
					exits = append(exits, st.clone())
					exitAt[x] = st.clone()
				}
			}
			// successors
			for si, s := range b.Succs {
				es := st.clone()
				feasible := true
				if ifi, ok := b.Instrs[len(b.Instrs)-1].(*ssa.If); ok && b.Succs[0] != b.Succs[1] {
					if p, truth, ok := r.condPred(ifi.Cond, st); ok {
						if si == 1 {
							truth = !truth
						}
						iv, nonEmpty := refineIvl(es[p.f].iv, p.op, p.k, truth)
						if !nonEmpty {
							feasible = false
						} else {
							es[p.f] = objField{iv, es[p.f].mod}
						}
					}
				}
				if !feasible {
					continue
				}
				outE[edge{b, s}] = es
				// join over the edges seen so far
				var ns objState
				for _, p := range s.Preds {
					e, ok := outE[edge{p, s}]
					if !ok {
						continue
					}
					if ns == nil {
						ns = e.clone()
						continue
					}
					for f := range r.fields {
						a, bb := ns[f], e[f]
						nf := objField{a.iv.join(bb.iv), a.mod}
						if a.mod != bb.mod {
							nf.mod = blockMark{s, f}
						}
						ns[f] = nf
					}
				}
				old, had := in[s]
				if had {
					// widening: a bound that keeps moving is given up
					for f := range r.fields {
						o, n := old[f], ns[f]
						n.iv = o.iv.join(n.iv)
						if visits[s] > 40 {
							if n.iv.lo < o.iv.lo {
								n.iv.lo = typeIvl(r.fields[f]).lo
							}
							if n.iv.hi > o.iv.hi {
								n.iv.hi = typeIvl(r.fields[f]).hi
							}
						}
						ns[f] = n
					}
				}
				changed := !had
				if had {
					for f := range r.fields {
						if old[f] != ns[f] {
							changed = true
						}
					}
				}
				if changed {
					in[s] = ns
					if !queued[s] {
						queued[s] = true
						work = append(work, s)
					}
				}
			}
		}
		if pass > 0 && loadKey() == before {
			break
		}
	}
	if len(exits) == 0 {
		return nil, false
	}
	sum.exit = exits[0].clone()
	for _, e := range exits[1:] {
		for f := range r.fields {
			a := sum.exit[f]
			a.iv = a.iv.join(e[f].iv)
			sum.exit[f] = a
		}
	}
	// a boolean result that is a comparison of a field (as it is at the return) with a constant
	if res := fn.Signature.Results(); res.Len() == 1 && len(exitAt) == 1 {
		if b, ok := res.At(0).Type().Underlying().(*types.Basic); ok && b.Kind() == types.Bool {
			for ret, st := range exitAt {
				if p, truth, ok := r.condPred(ret.Results[0], st); ok {
					if !truth {
						q := *p
						switch p.op {
						case token.LSS:
							q.op = token.GEQ
						case token.LEQ:
							q.op = token.GTR
						case token.GTR:
							q.op = token.LEQ
						case token.GEQ:
							q.op = token.LSS
						case token.EQL:
							q.op = token.NEQ
						case token.NEQ:
							q.op = token.EQL
						}
						p = &q
					}
					sum.pred = p
				}
			}
		}
	}
	return sum, true
}

func newObjRun(fn *ssa.Function, obj ssa.Value, depth int) *objRun {
	fields, ok := intFieldsOf(obj)
	if !ok {
		return nil
	}
	return &objRun{fn: fn, obj: obj, fields: fields, loadIv: map[*ssa.UnOp]ivl{}, loadAt: map[*ssa.UnOp]interface{}{},
		callAt: map[*ssa.Call]map[int]interface{}{}, callPr: map[*ssa.Call]*fieldPred{}, depth: depth}
}

func objCalleeSummary(g *ssa.Function, at int, st objState, depth int) *objSummary {
	if g == nil || depth > 3 || at >= len(g.Params) || objSummaryBusy[g] {
		return nil
	}
	key := fmt.Sprintf("%s|%d|%s", g.String(), at, st.key())
	if s, ok := objSummaryCache[key]; ok {
		return s
	}
	objSummaryBusy[g] = true
	defer delete(objSummaryBusy, g)
	r := newObjRun(g, g.Params[at], depth)
	if r == nil {
		return nil
	}
	entry := objState{}
	for f := range r.fields {
		entry[f] = objField{st[f].iv, g}
	}
	s, ok := r.run(entry)
	if !ok {
		s = &objSummary{}
	}
	objSummaryCache[key] = s
	return s
}

// localObjectLoadRanges: for every load of an integer field of an eligible local object of fn, the
// interval of the values it can yield.
var localObjCache = map[*ssa.Function]map[*ssa.UnOp]ivl{}

func localObjectLoadRanges(fn *ssa.Function) map[*ssa.UnOp]ivl {
	if r, ok := localObjCache[fn]; ok {
		return r
	}
	out := map[*ssa.UnOp]ivl{}
	localObjCache[fn] = out
	for _, b := range fn.Blocks {
		for _, ins := range b.Instrs {
			al, ok := ins.(*ssa.Alloc)
			if !ok {
				continue
			}
			if _, ok := intFieldsOf(al); !ok {
				continue
			}
			if !objUsesOK(al, 0, map[*ssa.Function]bool{fn: true}) {
				continue
			}
			r := newObjRun(fn, al, 0)
			if _, ok := r.run(nil); !ok {
				continue
			}
			for ld, iv := range r.loadIv {
				out[ld] = iv
			}
		}
	}
	return out
}

var valAtomLoads = map[string][]*ssa.UnOp{}

func noteValAtom(a string, u *ssa.UnOp) {
	for _, x := range valAtomLoads[a] {
		if x == u {
			return
		}
	}
	valAtomLoads[a] = append(valAtomLoads[a], u)
}

// localObjRangeFacts: lo <= a <= hi for the atom of a field of a local object.
func localObjRangeFacts(a string) []Lin {
	loads := valAtomLoads[a]
	if len(loads) == 0 {
		return nil
	}
	var res *ivl
	for _, u := range loads {
		iv, ok := localObjectLoadRanges(u.Parent())[u]
		if !ok {
			return nil
		}
		if res == nil {
			res = &iv
		} else {
			j := res.join(iv)
			res = &j
		}
	}
	var out []Lin
	if res.lo > -ivlInf {
		out = append(out, atom(a).addK(-res.lo))
	}
	if res.hi < ivlInf {
		out = append(out, konst(res.hi).sub(atom(a)))
	}
	return out
}

// ---- 7. a slice field wrapped into a small named type with methods --------------------------------
//
// `procStart []int` → `openBraces braceStack` with depth/push/pop: the places that make the list
// longer are the stores of an append in place and the calls that hand the field's address to a
// module function which appends through the pointer; the length of the list is `len(field)` or the
// result of a module function that returns the length of its argument.

// slotPushes: the instructions at which slice field F of T grows.  ok is false when the address of
// the field is used in a way that is not followed.
func (c *Ctx) slotPushes(T *types.TypeName, F string) (sites []ssa.Instruction, ok bool) {
	ok = true
	for _, g := range c.modFuncs {
		eachInstr(g, func(ins ssa.Instruction) {
			fa, isFA := ins.(*ssa.FieldAddr)
			if !isFA || !isFieldAddr(fa, T, F) || fa.Referrers() == nil {
				return
			}
			for _, r := range *fa.Referrers() {
				switch x := r.(type) {
				case *ssa.DebugRef:
				case *ssa.UnOp:
				case *ssa.Store:
					if x.Addr != ssa.Value(fa) {
						ok = false
						continue
					}
					if _, isCall := x.Val.(*ssa.Call); isCall {
						sites = append(sites, x)
					}
				case ssa.CallInstruction:
					h := x.Common().StaticCallee()
					if h == nil || !inMod(h) || len(h.Blocks) == 0 || x.Common().IsInvoke() {
						ok = false
						continue
					}
					for i, a := range x.Common().Args {
						if a != ssa.Value(fa) || i >= len(h.Params) {
							continue
						}
						grows, followed := appendsThrough(h.Params[i], 0)
						if !followed {
							ok = false
						}
						if grows {
							sites = append(sites, x)
						}
					}
				default:
					ok = false
				}
			}
		})
	}
	return sites, ok
}

// appendsThrough: the function stores the result of a call (an append) through its pointer parameter.
func appendsThrough(p *ssa.Parameter, depth int) (grows, followed bool) {
	if depth > 2 || p.Referrers() == nil {
		return false, false
	}
	followed = true
	for _, r := range *p.Referrers() {
		switch x := r.(type) {
		case *ssa.DebugRef:
		case *ssa.UnOp:
			if x.Op != token.MUL {
				followed = false
			}
		case *ssa.Store:
			if x.Addr != ssa.Value(p) {
				followed = false
				continue
			}
			if _, isCall := x.Val.(*ssa.Call); isCall {
				grows = true
			}
		case ssa.CallInstruction:
			h := x.Common().StaticCallee()
			if h == nil || !inMod(h) || len(h.Blocks) == 0 || x.Common().IsInvoke() {
				followed = false
				continue
			}
			for i, a := range x.Common().Args {
				if a == ssa.Value(p) && i < len(h.Params) {
					g2, f2 := appendsThrough(h.Params[i], depth+1)
					grows = grows || g2
					followed = followed && f2
				}
			}
		default:
			followed = false
		}
	}
	return grows, followed
}

// lenOfSlot: v is the length of slice field F of T: len(x.F), or the result of a module function,
// applied to the field's value or address, that returns the length of that parameter.
func lenOfSlot(v ssa.Value, T *types.TypeName, F string) bool {
	if lenOfField(v, T, F) {
		return true
	}
	call, ok := origin(v).(*ssa.Call)
	if !ok {
		return false
	}
	h := call.Call.StaticCallee()
	if h == nil || !inMod(h) || len(h.Blocks) == 0 || call.Call.IsInvoke() {
		return false
	}
	at := -1
	for i, a := range call.Call.Args {
		if isFieldLoad(a, T, F) || isFieldAddr(a, T, F) {
			if at >= 0 {
				return false
			}
			at = i
		}
	}
	if at < 0 || at >= len(h.Params) {
		return false
	}
	p := h.Params[at]
	n := 0
	for _, r := range returns(h) {
		if len(r.Results) != 1 {
			return false
		}
		for _, rv := range retValues(r, 0) {
			n++
			lc, ok := origin(rv).(*ssa.Call)
			if !ok {
				return false
			}
			b, ok := lc.Call.Value.(*ssa.Builtin)
			if !ok || b.Name() != "len" {
				return false
			}
			arg := origin(lc.Call.Args[0])
			if arg == ssa.Value(p) {
				continue
			}
			if u, ok := arg.(*ssa.UnOp); ok && u.Op == token.MUL && u.X == ssa.Value(p) {
				// *p, with nothing stored through p before
				stored := false
				for _, pr := range *p.Referrers() {
					if _, isSt := pr.(*ssa.Store); isSt {
						stored = true
					}
				}
				if !stored {
					continue
				}
			}
			return false
		}
	}
	return n > 0
}

// ---- 8. values and tests that moved into a small helper -------------------------------------------
//
// (a) A reviewed obligation is found again when the value it names is now produced by a helper:
// the construct is rendered a second time with the value a helper returns written out in place
// (parameters replaced by the arguments, at the same depth of the rendering).  The alias only
// serves to look the entry up; the facts the entry requires must still hold at the site.

var shapeInline bool
var shapeEnv = map[ssa.Value]ssa.Value{}
var shapeBusy = map[*ssa.Function]bool{}

func (c *Ctx) aliasOf(construct string, render func() string) string {
	shapeInline = true
	defer func() { shapeInline = false }()
	a := render()
	if a == construct {
		return ""
	}
	return a
}

func (c *Ctx) inlineShape(v ssa.Value, d int) (string, bool) {
	if p, ok := v.(*ssa.Parameter); ok {
		if a, ok := shapeEnv[p]; ok {
			delete(shapeEnv, p) // the argument belongs to the caller
			s := c.valShapeD(a, d)
			shapeEnv[p] = a
			return s, true
		}
		return "", false
	}
	var call *ssa.Call
	idx := 0
	switch x := v.(type) {
	case *ssa.Extract:
		call, _ = x.Tuple.(*ssa.Call)
		idx = x.Index
	case *ssa.Call:
		if _, isTuple := x.Type().(*types.Tuple); !isTuple {
			call = x
		}
	}
	if call == nil || call.Call.IsInvoke() {
		return "", false
	}
	g := call.Call.StaticCallee()
	if g == nil || !inMod(g) || len(g.Blocks) == 0 || len(g.Blocks) > 6 || shapeBusy[g] || len(call.Call.Args) != len(g.Params) {
		return "", false
	}
	// the one value the helper can return apart from constants
	var rv ssa.Value
	for _, r := range returns(g) {
		if len(r.Results) <= idx {
			return "", false
		}
		for _, x := range retValues(r, idx) {
			if _, isC := x.(*ssa.Const); isC {
				continue
			}
			if rv != nil && rv != x {
				return "", false
			}
			rv = x
		}
	}
	if rv == nil {
		return "", false
	}
	shapeBusy[g] = true
	saved := map[ssa.Value]ssa.Value{}
	for i, p := range g.Params {
		if old, ok := shapeEnv[p]; ok {
			saved[p] = old
		}
		shapeEnv[p] = call.Call.Args[i]
	}
	s := c.valShapeD(rv, d)
	for _, p := range g.Params {
		delete(shapeEnv, p)
		if old, ok := saved[p]; ok {
			shapeEnv[p] = old
		}
	}
	delete(shapeBusy, g)
	return s, true
}

// (b) What a helper has tested holds in the caller on the branch that tests the helper's boolean
// result: `start, ok := stack.pop(); if !ok { return }` leaves "the list was not empty at the
// call" behind.  The facts that dominate every return of the helper which can yield the tested
// value are carried over, as far as they speak about integer parameters, lengths of slice
// parameters and the length of a slice the helper reads through a pointer parameter before it
// writes through it.

var boolResultBusy = map[*ssa.Function]bool{}

func (fi *funcInfo) boolResultFacts(c ssa.Value, truth bool) []Lin {
	var call *ssa.Call
	idx := 0
	switch x := c.(type) {
	case *ssa.Extract:
		call, _ = x.Tuple.(*ssa.Call)
		idx = x.Index
	case *ssa.Call:
		if _, isTuple := x.Type().(*types.Tuple); !isTuple {
			call = x
		}
	}
	if call == nil || call.Call.IsInvoke() || call.Parent() != fi.fn {
		return nil
	}
	if b, ok := c.Type().Underlying().(*types.Basic); !ok || b.Kind() != types.Bool {
		return nil
	}
	g := call.Call.StaticCallee()
	if g == nil || !inMod(g) || len(g.Blocks) == 0 || g == fi.fn || boolResultBusy[g] || len(call.Call.Args) != len(g.Params) {
		return nil
	}
	boolResultBusy[g] = true
	defer delete(boolResultBusy, g)
	gfi := newFuncInfo(g)
	// the facts common to all returns that can yield `truth`
	var common []Lin
	first := true
	for _, r := range returns(g) {
		if len(r.Results) <= idx {
			return nil
		}
		can := false
		for _, rv := range retValues(r, idx) {
			if k, isC := constBool(rv); !isC || k == truth {
				can = true
			}
		}
		if !can {
			continue
		}
		fs := gfi.factsAt(r.Block(), r)
		if first {
			common, first = fs, false
			continue
		}
		var keep []Lin
		for _, a := range common {
			for _, b := range fs {
				if a.String() == b.String() {
					keep = append(keep, a)
					break
				}
			}
		}
		common = keep
	}
	if len(common) == 0 {
		return nil
	}
	// atoms of the helper that mean something in the caller
	trans := map[string]func() (Lin, bool){}
	for i, p := range g.Params {
		i, p := i, p
		arg := call.Call.Args[i]
		if _, _, isInt := isIntType(p.Type()); isInt {
			trans[gfi.vname(p)] = func() (Lin, bool) { return fi.term(arg), true }
		}
		switch u := p.Type().Underlying().(type) {
		case *types.Slice:
			trans["len("+gfi.vname(p)+")"] = func() (Lin, bool) { return fi.lenOf(arg), true }
		case *types.Basic:
			if u.Info()&types.IsString != 0 {
				trans["len("+gfi.vname(p)+")"] = func() (Lin, bool) { return fi.lenOf(arg), true }
			}
		case *types.Pointer:
			if _, isSlice := u.Elem().Underlying().(*types.Slice); !isSlice {
				continue
			}
			fa, ok := arg.(*ssa.FieldAddr)
			if !ok {
				continue
			}
			// loads of *p in the entry block before anything is stored through p
			for _, ins := range g.Blocks[0].Instrs {
				if st, ok := ins.(*ssa.Store); ok && st.Addr == ssa.Value(p) {
					break
				}
				if _, isCall := ins.(ssa.CallInstruction); isCall {
					if cv, ok := ins.(*ssa.Call); !ok || !isBuiltinCall(cv) {
						break
					}
				}
				if u, ok := ins.(*ssa.UnOp); ok && u.Op == token.MUL && u.X == ssa.Value(p) {
					trans["len("+gfi.vname(u)+")"] = func() (Lin, bool) {
						return fi.fieldLenAtCall(call, fa.X, fieldName(fa))
					}
				}
			}
		}
	}
	var out []Lin
	for _, f := range common {
		res := konst(0)
		res.c.Set(f.c)
		ok := true
		n := 0
		for a, k := range f.coef {
			if a == neqMarker {
				res.coef[neqMarker] = new(big.Rat).Set(k)
				continue
			}
			t, has := trans[a]
			if !has {
				ok = false
				break
			}
			l, good := t()
			if !good {
				ok = false
				break
			}
			res = res.addScaled(l, k)
			n++
		}
		if ok && n > 0 {
			out = append(out, res)
		}
	}
	return out
}

func isBuiltinCall(c *ssa.Call) bool {
	_, ok := c.Call.Value.(*ssa.Builtin)
	return ok
}
