package main

import (
	"fmt"
	"go/token"
	"go/types"
	"sort"
	"strings"

	"golang.org/x/tools/go/ssa"
)

// Class invariants: relations between the fields of one object that hold whenever control is at
// a function boundary — for the scanner's read buffer  0 <= pos <= used <= len(buf).
//
// Established, not assumed (rule CLASS-INV, reported under C01): in every function that stores to
// one of the fields, the relations are proved for the values the fields have at every return and
// right before every call (so that no callee is ever entered with the invariant broken), from
// the stored values and the invariant at the function's own entry.  What the proofs may then
// use: at a point where every field of the invariant was last set by the function's entry or by
// a call (never by a store of the function itself since), the relations hold — "clean" states.
// A freshly allocated object has zero fields.  During the verification a call through an
// interface value held in a field of the same object is taken not to touch the object (the
// reader a scanner draws from is another object; reviewed, reviewed/assumptions.json).

type classInvRel struct {
	desc string
	// lin builds the form that must be >= 0 from the terms of the fields
	lin func(get func(field string) Lin) Lin
}

type classInv struct {
	id     string
	T      *types.Named
	fields []string // fieldName keys, in the order used by rels
	isLen  map[string]bool
	rels   []classInvRel
}

var classInvs []*classInv
var classInvField = map[string]bool{}

func (c *Ctx) setupClassInvariants() {
	classInvs = nil
	classInvField = map[string]bool{}
	tn := c.typeObj("postscript", "scanner")
	T := tn.Type().(*types.Named)
	key := func(role string) string { return c.fldKey(role) }
	for _, role := range []string{"scanner.pos", "scanner.used", "scanner.buf"} {
		if _, ok := c.fldOpt(role); !ok {
			// the buffer is not represented by a cursor and a fill level: there is no such invariant
			// to establish or to use; the index expressions are decided without it
			return
		}
	}
	pos, used, buf := key("scanner.pos"), key("scanner.used"), key("scanner.buf")
	// the invariant belongs to the struct that declares the buffer fields (the scanner, or the part
	// of it they were grouped into); the separation on record is looked up under that type
	if on, ok := c.fldOwner("scanner.buf").Type().(*types.Named); ok && c.fldOwner("scanner.pos") == c.fldOwner("scanner.buf") && c.fldOwner("scanner.used") == c.fldOwner("scanner.buf") {
		T = on
	}
	ci := &classInv{id: "scanner-buffer", T: T, fields: []string{pos, used, buf}, isLen: map[string]bool{buf: true}}
	ci.rels = []classInvRel{
		{"pos >= 0", func(get func(string) Lin) Lin { return get(pos) }},
		{"pos <= used", func(get func(string) Lin) Lin { return get(used).sub(get(pos)) }},
		{"used <= len(buf)", func(get func(string) Lin) Lin { return get(buf).sub(get(used)) }},
	}
	classInvs = append(classInvs, ci)
	for _, f := range ci.fields {
		classInvField[f] = true
	}
}

func (fi *funcInfo) snapshot(ins ssa.Instruction, cur map[string]string) {
	if len(classInvField) == 0 {
		return
	}
	var snap map[string]string
	for f := range classInvField {
		if e, ok := cur[f]; ok {
			if snap == nil {
				snap = map[string]string{}
			}
			snap[f] = e
		}
	}
	if snap == nil {
		return
	}
	if fi.stateAt == nil {
		fi.stateAt = map[ssa.Instruction]map[string]string{}
	}
	fi.stateAt[ins] = snap
}

// clean: the epoch of field f was produced by the function's entry, by a call, or by a merge of
// such epochs only.
func (fi *funcInfo) clean(f, ep string) bool {
	if fi.cleanEp == nil {
		fi.cleanEp = map[string]bool{}
		// all phi epochs start clean; remove those with an unclean input until stable
		type pk struct {
			f string
			b *ssa.BasicBlock
		}
		unclean := map[pk]bool{}
		isClean := func(f, ep string) bool {
			switch {
			case ep == "entry" || strings.HasPrefix(ep, "call@"):
				return true
			case strings.HasPrefix(ep, "phi@"):
				var idx int
				fmt.Sscanf(ep, "phi@%d", &idx)
				if idx < len(fi.fn.Blocks) {
					return !unclean[pk{f, fi.fn.Blocks[idx]}]
				}
			}
			return false
		}
		for changed := true; changed; {
			changed = false
			for _, b := range fi.fn.Blocks {
				for f := range classInvField {
					if unclean[pk{f, b}] || fi.inEpoch[b][f] != fmt.Sprintf("phi@%d", b.Index) {
						continue
					}
					for _, p := range b.Preds {
						if pe, ok := fi.outEpoch[p][f]; ok && !isClean(f, pe) {
							unclean[pk{f, b}] = true
							changed = true
						}
					}
				}
			}
		}
		for _, b := range fi.fn.Blocks {
			for f := range classInvField {
				ep := fmt.Sprintf("phi@%d", b.Index)
				fi.cleanEp[f+"|"+ep] = !unclean[pk{f, b}]
			}
		}
		// a join reached with values the function itself stored (the head of a loop that refills the
		// buffer in place): the invariant holds there if it is shown on every edge into the join,
		// by induction over the joins (ext_y1.go)
	}
	if fi.relReady && !fi.joinsDone {
		fi.joinsDone = true
		fi.classInvJoins()
	}
	if ep == "entry" || strings.HasPrefix(ep, "call@") {
		return true
	}
	return fi.cleanEp[f+"|"+ep]
}

func classInvAtom(isLen bool, base, f, ep string) string {
	if isLen {
		return fmt.Sprintf("len(%s.%s@%s)", base, f, ep)
	}
	return fmt.Sprintf("val(%s.%s@%s)", base, f, ep)
}

// classInvFacts: the relations of the class invariants for an atom that names a field of one,
// instantiated for every clean state of the function in which the atom's epoch is current.
func classInvFacts(a string) []Lin {
	if len(classInvs) == 0 || !(strings.HasPrefix(a, "val(") || strings.HasPrefix(a, "len(")) || !strings.HasSuffix(a, ")") {
		return nil
	}
	body := a[4 : len(a)-1]
	for _, ci := range classInvs {
		for _, f := range ci.fields {
			i := strings.Index(body, "."+f+"@")
			if i < 0 || ci.isLen[f] != strings.HasPrefix(a, "len(") {
				continue
			}
			base, ep := body[:i], body[i+len(f)+2:]
			bv, ok := valueByName[base]
			if !ok {
				return nil
			}
			fi := fiByFn[parentOf(bv)]
			if fi == nil {
				return nil
			}
			if al, isAlloc := bv.(*ssa.Alloc); isAlloc && ep == "entry" {
				_ = al
				// a fresh object: zero
				return []Lin{atom(a), atom(a).neg()}
			}
			if _, isAlloc := bv.(*ssa.Alloc); isAlloc {
				return nil
			}
			if freshPartOf(bv) { // ext_x5.go: a struct held by value in a fresh object is as fresh as the object
				if ep == "entry" {
					return []Lin{atom(a), atom(a).neg()}
				}
				return nil
			}
			var out []Lin
			seen := map[string]bool{}
			var keys []ssa.Instruction
			for ins := range fi.stateAt {
				keys = append(keys, ins)
			}
			sort.Slice(keys, func(i, j int) bool { return keys[i].Pos() < keys[j].Pos() })
			for _, ins := range keys {
				st := fi.stateAt[ins]
				if st[f] != ep {
					continue
				}
				sig := ""
				okState := true
				for _, g := range ci.fields {
					e, has := st[g]
					if !has || !fi.clean(g, e) {
						okState = false
						break
					}
					sig += e + "|"
				}
				if !okState || seen[sig] {
					continue
				}
				seen[sig] = true
				get := func(g string) Lin { return atom(classInvAtom(ci.isLen[g], base, g, st[g])) }
				for _, r := range ci.rels {
					out = append(out, r.lin(get))
				}
			}
			return out
		}
	}
	return nil
}

// classInvRules verifies the invariants in every function that stores to one of their fields.
func (c *Ctx) classInvRules(report bool) {
	for _, ci := range classInvs {
		// the separation this verification relies on must be on record
		have := false
		for _, a := range separations {
			if strings.HasPrefix(a.key, types.TypeString(ci.T, nil)+".") {
				have = true
			}
		}
		if !have {
			if report {
				c.fail("CLASS-INV", "-", ci.id+": separation on record", token.NoPos, "reviewed/assumptions.json has no `separate` entry for "+ci.T.Obj().Name())
			}
			continue
		}
		for _, f := range ci.fields {
			separateInstances[f] = true
		}
		saved := fiByFn
		fiByFn = map[*ssa.Function]*funcInfo{}
		nWriters := 0
		for _, fn := range c.modFuncs {
			bases := map[ssa.Value]bool{}
			for _, b := range fn.Blocks {
				for _, ins := range b.Instrs {
					if st, ok := ins.(*ssa.Store); ok {
						if fa, ok := st.Addr.(*ssa.FieldAddr); ok {
							for _, f := range ci.fields {
								if fieldName(fa) == f {
									bases[canonBase(fa.X)] = true
								}
							}
						}
					}
				}
			}
			if len(bases) == 0 {
				continue
			}
			nWriters++
			fi := newFuncInfo(fn)
			var blist []ssa.Value
			for b := range bases {
				blist = append(blist, b)
			}
			sort.Slice(blist, func(i, j int) bool { return blist[i].Name() < blist[j].Name() })
			for _, b := range fn.Blocks {
				for _, ins := range b.Instrs {
					var where string
					switch x := ins.(type) {
					case *ssa.Return:
						where = "at return"
					case ssa.CallInstruction:
						if _, isB := x.Common().Value.(*ssa.Builtin); isB {
							continue
						}
						where = "before the call " + c.valShapeIns(ins)
					default:
						continue
					}
					st := fi.stateAt[ins]
					if st == nil {
						continue
					}
					for _, base := range blist {
						bn := fi.vname(base)
						get := func(g string) Lin {
							ep := st[g]
							if ep == "" {
								ep = "entry" // the function does not touch this field
							}
							if r, ok := fi.rel[ep+"|"+g+"|"+bn]; ok {
								return r
							}
							return atom(classInvAtom(ci.isLen[g], bn, g, ep))
						}
						for _, r := range ci.rels {
							goal := r.lin(get)
							good := fi.prove([]Lin{goal}, fi.factsAt(b, ins), 1)
							if !report {
								continue
							}
							construct := fmt.Sprintf("%s: %s %s", ci.id, r.desc, where)
							if good {
								c.ok("CLASS-INV", fn.String(), construct, ins.Pos(), "holds for the values the fields have here, from the stored values and the invariant at entry", "")
							} else {
								c.fail("CLASS-INV", fn.String(), construct, ins.Pos(), "the buffer invariant "+r.desc+" cannot be shown "+where+": code that indexes the buffer relies on it and can panic")
							}
						}
					}
				}
			}
		}
		for _, f := range ci.fields {
			delete(separateInstances, f)
		}
		fiByFn = saved
		if report && nWriters < 2 {
			c.fail("CLASS-INV", "-", ci.id+": writers", token.NoPos, "fewer than two functions store to the fields of the invariant: the rule lost its anchor")
		}
	}
}
