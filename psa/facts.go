package main

// Fact engine (DESIGN.md §3.2): dominating-condition facts, linearisation with
// overflow side conditions, memory epochs for slice-typed slots, monotone and
// identical phis, library contracts, Fourier–Motzkin entailment (facts_fm.go).
// Ported from the design-phase prototype.

import (
	"fmt"
	"go/constant"
	"go/token"
	"go/types"
	"math/big"
	"os"
	"strings"

	"golang.org/x/tools/go/callgraph"
	"golang.org/x/tools/go/ssa"
)

var prog *ssa.Program
var cg *callgraph.Graph
var feCtx *Ctx

func inMod(fn *ssa.Function) bool { return feCtx.inModule(fn) }

// ---------- mod sets: which struct fields may a function write (transitively)
type fieldKey struct {
	T types.Type // struct type (named)
	I int
}

var modSet = map[*ssa.Function]map[string]bool{} // "*" = everything

func fieldName(fa *ssa.FieldAddr) string {
	st := fa.X.Type().Underlying().(*types.Pointer).Elem()
	return types.TypeString(st, nil) + "." + st.Underlying().(*types.Struct).Field(fa.Field).Name()
}

func computeModSets(all map[*ssa.Function]bool) {
	direct := map[*ssa.Function]map[string]bool{}
	for fn := range all {
		if !inMod(fn) {
			continue
		}
		m := map[string]bool{}
		for _, b := range fn.Blocks {
			for _, ins := range b.Instrs {
				if st, ok := ins.(*ssa.Store); ok {
					if fa, ok := st.Addr.(*ssa.FieldAddr); ok {
						m[fieldName(fa)] = true
					}
				}
				if fa, ok := ins.(*ssa.FieldAddr); ok && fieldAddrHandedOut(fa) {
					m[fieldName(fa)] = true // the address goes to code that can store through it (ext_y1.go)
				}
			}
		}
		direct[fn] = m
	}
	// transitive closure over callgraph (module functions only); dynamic/unknown => handled at call site
	changed := true
	for fn, m := range direct {
		c := map[string]bool{}
		for k := range m {
			c[k] = true
		}
		modSet[fn] = c
	}
	for changed {
		changed = false
		for fn := range modSet {
			n := cg.Nodes[fn]
			if n == nil {
				continue
			}
			for _, e := range n.Out {
				callee := e.Callee.Func
				cm, ok := modSet[callee]
				if !ok {
					continue
				}
				for k := range cm {
					if !modSet[fn][k] {
						modSet[fn][k] = true
						changed = true
					}
				}
			}
			for _, an := range fn.AnonFuncs {
				for k := range modSet[an] {
					if !modSet[fn][k] {
						modSet[fn][k] = true
						changed = true
					}
				}
			}
		}
	}
}

func cellCallMayModify(c ssa.CallInstruction, cell ssa.Value) bool {
	com := c.Common()
	if _, ok := com.Value.(*ssa.Builtin); ok {
		return false
	}
	// callee given as MakeClosure directly, or loaded from a local cell holding a closure
	var mcs []*ssa.MakeClosure
	switch x := com.Value.(type) {
	case *ssa.MakeClosure:
		mcs = append(mcs, x)
	case *ssa.UnOp:
		// load of a cell that holds a closure: find stores of MakeClosure into that cell in the parent
		if a, ok := x.X.(*ssa.Alloc); ok {
			for _, r := range *a.Referrers() {
				if st, ok := r.(*ssa.Store); ok {
					if mc, ok := st.Val.(*ssa.MakeClosure); ok {
						mcs = append(mcs, mc)
					} else {
						return true
					}
				}
			}
		} else {
			return true
		}
	default:
		if sc := com.StaticCallee(); sc != nil {
			if sc.Parent() == nil {
				return false // top-level function: cannot reach a local cell unless passed by pointer (not handled: conservative below)
			}
		}
		for _, a := range com.Args {
			if a == cell {
				return true
			}
		}
		if com.StaticCallee() != nil {
			return false
		}
		return true
	}
	for _, mc := range mcs {
		cf := mc.Fn.(*ssa.Function)
		for j, bnd := range mc.Bindings {
			if bnd == cell && closureStoresFV(cf, cf.FreeVars[j], 0) {
				return true
			}
		}
	}
	return false
}

// may the call instruction modify field fname?
var separateInstances = map[string]bool{}

func callMayModify(c ssa.CallInstruction, fname string) bool {
	com := c.Common()
	if b, ok := com.Value.(*ssa.Builtin); ok {
		_ = b
		return false
	}
	if callGetsFieldAddr(com, fname) {
		return true // the address of the field is an argument and the callee can store through it (ext_y1.go)
	}
	if separateInstances[fname] && com.IsInvoke() {
		// the receiver of the call is the object held in a field of the object whose field fname is
		// tracked: a different object (see fieldNonneg)
		if u, ok := origin(com.Value).(*ssa.UnOp); ok && u.Op == token.MUL {
			if _, isField := u.X.(*ssa.FieldAddr); isField {
				return false
			}
		}
	}
	fn := c.Parent()
	n := cg.Nodes[fn]
	found := false
	if n != nil {
		for _, e := range n.Out {
			if e.Site == c {
				found = true
				callee := e.Callee.Func
				if !inMod(callee) {
					// stdlib: may call back closures passed as args; conservative: if any arg is a function value from module -> check those
					for _, a := range com.Args {
						if mc, ok := a.(*ssa.MakeClosure); ok {
							if modSet[mc.Fn.(*ssa.Function)][fname] {
								return true
							}
						}
					}
					// interface method calls into module types are resolved by VTA as module callees, so non-module callee is safe
					continue
				}
				if modSet[callee][fname] {
					return true
				}
			}
		}
	}
	if !found {
		// no edges: unresolved => conservative unless static callee outside module
		if sc := com.StaticCallee(); sc != nil && !inMod(sc) {
			return false
		}
		return true
	}
	return false
}

// ---------- epochs
type funcInfo struct {
	fn                *ssa.Function
	epoch             map[ssa.Instruction]map[string]string // at load instruction: field -> epoch id
	rel               map[string]Lin                        // epoch id -> length linear form (if known)
	relCtx            map[string]ssa.Instruction
	fields            map[string]bool
	cells             map[string]ssa.Value
	terms             map[ssa.Value]Lin
	busy              map[ssa.Value]bool
	intFields         map[string]bool
	neq               []Lin
	substs            []substEntry
	busyCall          map[*ssa.Call]bool
	inOverflowProof   bool
	inDivProof        bool
	outEpoch, inEpoch map[*ssa.BasicBlock]map[string]string
	// callEpoch: the epochs of the tracked fields right before each call instruction
	callEpoch map[ssa.Instruction]map[string]string
	// stateAt: the epochs of the class-invariant fields at loads of such fields, calls and returns
	stateAt map[ssa.Instruction]map[string]string
	cleanEp map[string]bool
	// busyEpoch: epoch-join atoms being split (ext_x2.go)
	busyEpoch map[string]bool
	// relReady: the relations of all stores are recorded; joinsDone: classInvJoins has run (ext_y1.go)
	relReady, joinsDone bool
}

func slotOf(v ssa.Value) (base ssa.Value, fname string, ok bool) {
	// v is an address: FieldAddr(base, f), or a captured cell (Alloc / FreeVar)
	switch x := v.(type) {
	case *ssa.FieldAddr:
		// a field of a struct embedded by value is a field of the enclosing object: there is at most
		// one embedded field of a type, so (object, inner field) names the slot
		if outer, ok := x.X.(*ssa.FieldAddr); ok {
			if st, ok := outer.X.Type().Underlying().(*types.Pointer).Elem().Underlying().(*types.Struct); ok && st.Field(outer.Field).Embedded() {
				return canonBase(outer.X), fieldName(x), true
			}
		}
		return canonBase(x.X), fieldName(x), true
	case *ssa.Alloc:
		if x.Heap {
			return x, "cell:" + x.Name() + ":" + x.Comment, true
		}
	case *ssa.FreeVar:
		return x, "cell:" + x.Name(), true
	}
	return nil, "", false
}

// canonBase resolves a base pointer to a canonical value: parameters that
// go/ssa spilled into a cell (because of defer/closures) and captured
// variables that are never reassigned denote one value however often they
// are loaded.
func canonBase(v ssa.Value) ssa.Value {
	v = origin(v)
	if u, ok := v.(*ssa.UnOp); ok && u.Op == token.MUL {
		if fv, ok := u.X.(*ssa.FreeVar); ok {
			if capturedOnce(fv) {
				return fv
			}
		}
	}
	return v
}

// capturedOnce: the captured variable is assigned exactly once in the
// enclosing function and never stored to by any closure.
func capturedOnce(fv *ssa.FreeVar) bool {
	fn := fv.Parent()
	par := fn.Parent()
	if par == nil {
		return false
	}
	idx := -1
	for i, f := range fn.FreeVars {
		if f == fv {
			idx = i
		}
	}
	for _, r := range *fv.Referrers() {
		switch r.(type) {
		case *ssa.UnOp, *ssa.DebugRef:
		case *ssa.MakeClosure:
			// passed on to a nested closure: that one must not store either
		default:
			return false
		}
	}
	ok := false
	for _, b := range par.Blocks {
		for _, ins := range b.Instrs {
			if mc, isMC := ins.(*ssa.MakeClosure); isMC && mc.Fn == fn && idx < len(mc.Bindings) {
				switch bnd := mc.Bindings[idx].(type) {
				case *ssa.Alloc:
					if singleStore(bnd) != nil {
						ok = true
					} else {
						return false
					}
				case *ssa.FreeVar:
					if capturedOnce(bnd) {
						ok = true
					} else {
						return false
					}
				default:
					return false
				}
			}
		}
	}
	return ok
}

// closureStores: does anon function fn (transitively via closures it calls) store to free var index i?
func closureStoresFV(fn *ssa.Function, fv *ssa.FreeVar, depth int) bool {
	if depth > 4 {
		return true
	}
	for _, b := range fn.Blocks {
		for _, ins := range b.Instrs {
			switch x := ins.(type) {
			case *ssa.Store:
				if x.Addr == ssa.Value(fv) {
					return true
				}
			case ssa.CallInstruction:
				com := x.Common()
				// call of another captured closure: load of a FreeVar holding a func => conservative: look for MakeClosure in parent later; here: conservative true if callee unknown and not builtin/static non-closure
				if _, ok := com.Value.(*ssa.Builtin); ok {
					continue
				}
				if sc := com.StaticCallee(); sc != nil {
					if sc.Parent() == nil {
						continue // top-level function cannot touch our cell
					}
					// nested closure of fn: check its bindings
					if mc, ok := com.Value.(*ssa.MakeClosure); ok {
						cf := mc.Fn.(*ssa.Function)
						for j, bnd := range mc.Bindings {
							if bnd == ssa.Value(fv) && closureStoresFV(cf, cf.FreeVars[j], depth+1) {
								return true
							}
						}
					}
					continue
				}
				// dynamic call of a func value: could be a sibling closure loaded from a cell; be conservative only if value type is a func loaded from FreeVar cell
				if u, ok := com.Value.(*ssa.UnOp); ok {
					if _, ok := u.X.(*ssa.FreeVar); ok {
						return true // unknown sibling closure
					}
				}
			}
		}
	}
	return false
}

func analyzeEpochs(fi *funcInfo) {
	fn := fi.fn
	fi.fields = map[string]bool{}
	fi.cells = map[string]ssa.Value{}
	for _, b := range fn.Blocks {
		for _, ins := range b.Instrs {
			if fa, ok := ins.(*ssa.FieldAddr); ok {
				if _, isSlice := fa.Type().(*types.Pointer).Elem().Underlying().(*types.Slice); isSlice {
					fi.fields[fieldName(fa)] = true
				}
				if _, _, isInt := isIntType(fa.Type().(*types.Pointer).Elem()); isInt {
					fi.fields[fieldName(fa)] = true
					if fi.intFields == nil {
						fi.intFields = map[string]bool{}
					}
					fi.intFields[fieldName(fa)] = true
				}
			}
			if u, ok := ins.(*ssa.UnOp); ok && u.Op == token.MUL {
				if _, f, ok := slotOf(u.X); ok && strings.HasPrefix(f, "cell:") {
					if _, isSlice := u.Type().Underlying().(*types.Slice); isSlice {
						fi.fields[f] = true
						fi.cells[f] = u.X
					}
				}
			}
		}
	}
	in := map[*ssa.BasicBlock]map[string]string{}
	out := map[*ssa.BasicBlock]map[string]string{}
	fi.epoch = map[ssa.Instruction]map[string]string{}
	// The fixed point below is pessimistic: a join whose predecessors disagree *during* the iteration
	// (a value left over from an earlier pass comes back around a loop) becomes a fresh epoch and stays
	// one, although in the end it merges an epoch X only with itself — a loop without writes then cuts
	// every relation between the state before and after it.  Such joins are found afterwards (all
	// predecessors end with X or with the join's own epoch), recorded in joinAlias, and the analysis is
	// repeated with the join yielding X; the result is checked to be consistent (every predecessor of
	// an aliased join really ends with X), otherwise the aliases are dropped.
	joinAlias := map[string]string{}
	finalRound := false
	for round := 0; ; round++ { // (body not re-indented: the fixed point below is unchanged)
		if round > 0 {
			in = map[*ssa.BasicBlock]map[string]string{}
			out = map[*ssa.BasicBlock]map[string]string{}
			fi.epoch = map[ssa.Instruction]map[string]string{}
		}
		for iter := 0; iter < 50; iter++ {
			changed := false
			for _, b := range fn.Blocks {
				st := map[string]string{}
				for f := range fi.fields {
					if len(b.Preds) == 0 {
						st[f] = "entry"
						continue
					}
					val := ""
					same := true
					for _, p := range b.Preds {
						pv, ok := out[p][f]
						if !ok {
							continue // not yet computed
						}
						if val == "" {
							val = pv
						} else if val != pv {
							same = false
						}
					}
					if val == "" {
						continue
					}
					if !same {
						val = fmt.Sprintf("phi@%d", b.Index)
						if a, ok := joinAlias[f+"|"+val]; ok {
							val = a // a join that an earlier round found to merge one epoch with itself (see below)
						}
					}
					st[f] = val
				}
				if fmt.Sprint(in[b]) != fmt.Sprint(st) {
					in[b] = st
					changed = true
				}
				cur := map[string]string{}
				for k, v := range st {
					cur[k] = v
				}
				for i, ins := range b.Instrs {
					switch v := ins.(type) {
					case *ssa.UnOp:
						if v.Op == token.MUL {
							if _, f, ok := slotOf(v.X); ok && fi.fields[f] {
								m := map[string]string{f: cur[f]}
								fi.epoch[ins] = m
								if classInvField[f] {
									fi.snapshot(ins, cur)
								}
							}
						}
					case *ssa.Return:
						fi.snapshot(ins, cur)
					case *ssa.Store:
						if _, f, ok := slotOf(v.Addr); ok && fi.fields[f] {
							cur[f] = fmt.Sprintf("st@%d.%d", b.Index, i)
							fi.epoch[ins] = map[string]string{f: cur[f]}
						}
						// a store of a whole struct value replaces every field of an object of that type
						if _, isStruct := v.Val.Type().Underlying().(*types.Struct); isStruct {
							prefix := types.TypeString(v.Val.Type(), nil) + "."
							for f := range fi.fields {
								if strings.HasPrefix(f, prefix) {
									cur[f] = fmt.Sprintf("st@%d.%d", b.Index, i)
								}
							}
						}
					case ssa.CallInstruction:
						if fi.callEpoch == nil {
							fi.callEpoch = map[ssa.Instruction]map[string]string{}
						}
						snap := map[string]string{}
						for k, e := range cur {
							snap[k] = e
						}
						fi.callEpoch[ins] = snap
						fi.snapshot(ins, cur)
						for f := range fi.fields {
							if strings.HasPrefix(f, "cell:") {
								if cellCallMayModify(v, fi.cells[f]) {
									cur[f] = fmt.Sprintf("call@%d.%d", b.Index, i)
								}
								continue
							}
							if callMayModify(v, f) && !leafCallSpares(v, f) { // (a local struct behind leaf accessors: ext_x8.go)
								cur[f] = fmt.Sprintf("call@%d.%d", b.Index, i)
								if os.Getenv("DBG") != "" {
									fmt.Println("KILL", fn.Name(), f, v.String(), prog.Fset.Position(v.Pos()))
								}
							}
						}
					}
				}
				if fmt.Sprint(out[b]) != fmt.Sprint(cur) {
					out[b] = cur
					changed = true
				}
			}
			if !changed {
				break
			}
		}
		// the aliases in force must be consistent with the result
		consistent := true
		for _, b := range fn.Blocks {
			for f := range fi.fields {
				x, aliased := joinAlias[f+"|"+fmt.Sprintf("phi@%d", b.Index)]
				if !aliased {
					continue
				}
				for _, p := range b.Preds {
					if pv, ok := out[p][f]; ok && pv != x {
						consistent = false
					}
				}
			}
		}
		if !consistent {
			joinAlias = map[string]string{}
			finalRound = true // once more, without aliases
			continue
		}
		if finalRound || round >= 5 {
			break
		}
		found := false
		for _, b := range fn.Blocks {
			self := fmt.Sprintf("phi@%d", b.Index)
			for f := range fi.fields {
				if in[b][f] != self {
					continue
				}
				x, n := "", 0
				for _, p := range b.Preds {
					pv, ok := out[p][f]
					if !ok || pv == self {
						continue
					}
					if pv != x {
						x = pv
						n++
					}
				}
				if n == 1 {
					joinAlias[f+"|"+self] = x
					found = true
				}
			}
		}
		if !found {
			break
		}
	}
	// (A1's post-pass over what is left: φ(v, self) = v, renamed consistently; ext_x1.go)
	simplifyEpochJoinsX1(fi, in, out)
	fi.outEpoch = out
	fi.inEpoch = in
}

// ---------- terms
func (fi *funcInfo) vname(v ssa.Value) string {
	return fmt.Sprintf("%s#%s", fi.fn.String(), v.Name())
}

func isIntType(t types.Type) (bits int, signed bool, ok bool) {
	b, ok2 := t.Underlying().(*types.Basic)
	if !ok2 || b.Info()&types.IsInteger == 0 {
		return 0, false, false
	}
	switch b.Kind() {
	case types.Int, types.Int64:
		return 64, true, true
	case types.Int32:
		return 32, true, true
	case types.Int16:
		return 16, true, true
	case types.Int8:
		return 8, true, true
	case types.Uint, types.Uint64, types.Uintptr:
		return 64, false, true
	case types.Uint32:
		return 32, false, true
	case types.Uint16:
		return 16, false, true
	case types.Uint8:
		return 8, false, true
	}
	return 0, false, false
}

func typeRange(t types.Type) (lo, hi *big.Int) {
	bits, signed, ok := isIntType(t)
	if !ok {
		return nil, nil
	}
	one := big.NewInt(1)
	if signed {
		hi = new(big.Int).Lsh(one, uint(bits-1))
		lo = new(big.Int).Neg(hi)
		hi.Sub(hi, one)
	} else {
		lo = big.NewInt(0)
		hi = new(big.Int).Lsh(one, uint(bits))
		hi.Sub(hi, one)
	}
	return
}

// lenOf returns a linear form for len(v) for slice/string/array-pointer value v
func (fi *funcInfo) lenOf(v ssa.Value) Lin {
	switch x := v.(type) {
	case *ssa.UnOp:
		if x.Op == token.MUL {
			if al, isAl := x.X.(*ssa.Alloc); isAl {
				// a local cell assigned exactly once (a variable captured by a closure): its value
				if s := singleStore(al); s != nil && !fi.busy[x] {
					// (the stored value may itself be computed from the cell: `x = append(x, …)` in a loop)
					fi.busy[x] = true
					l := fi.lenOf(s)
					delete(fi.busy, x)
					return l
				}
			}
			if base, f, ok := slotOf(x.X); ok && fi.fields[f] {
				ep := fi.epoch[x][f]
				key := fmt.Sprintf("len(%s.%s@%s)", fi.vname(base), f, ep)
				if r, ok := fi.rel[ep+"|"+f+"|"+fi.vname(base)]; ok {
					return r
				}
				noteEpochAtom(key, fi, base, f, ep)
				return atom(key)
			}
		}
	case *ssa.Slice:
		var lo, hi Lin
		if x.Low != nil {
			lo = fi.term(x.Low)
		} else {
			lo = konst(0)
		}
		if x.High != nil {
			hi = fi.term(x.High)
		} else {
			// array pointer?
			if pt, ok := x.X.Type().Underlying().(*types.Pointer); ok {
				if at, ok := pt.Elem().Underlying().(*types.Array); ok {
					hi = konst(at.Len())
				} else {
					hi = fi.lenOf(x.X)
				}
			} else {
				hi = fi.lenOf(x.X)
			}
		}
		return hi.sub(lo)
	case *ssa.MakeSlice:
		return fi.term(x.Len)
	case *ssa.Extract:
		if ta, ok := x.Tuple.(*ssa.TypeAssert); ok && x.Index == 0 {
			return atom("leniface(" + fi.vname(ta.X) + ")")
		}
	case *ssa.TypeAssert:
		return atom("leniface(" + fi.vname(x.X) + ")")
	case *ssa.Call:
		if sc := x.Call.StaticCallee(); sc != nil && sc.String() == "strings.Split" {
			a := "len(" + fi.vname(v) + ")"
			splitLens[a] = true
			return atom(a)
		}
		if b, ok := x.Call.Value.(*ssa.Builtin); ok && b.Name() == "append" {
			base := fi.lenOf(x.Call.Args[0])
			if len(x.Call.Args) == 2 {
				return base.add(fi.lenOf(x.Call.Args[1]))
			}
			return base
		}
	case *ssa.Const:
		if x.Value != nil && x.Value.Kind() == constant.String {
			return konst(int64(len(constant.StringVal(x.Value))))
		}
		return konst(0) // nil slice
	case *ssa.Phi:
		// all edges same len?
		var first *Lin
		same := true
		for _, e := range x.Edges {
			if fi.busy[x] {
				same = false
				break
			}
			fi.busy[x] = true
			l := fi.lenOf(e)
			delete(fi.busy, x)
			if first == nil {
				first = &l
			} else if first.String() != l.String() {
				same = false
			}
		}
		if same && first != nil {
			return *first
		}
	case *ssa.ChangeType:
		return fi.lenOf(x.X)
	case *ssa.Convert:
		return fi.lenOf(x.X)
	}
	if at, ok := v.Type().Underlying().(*types.Array); ok {
		return konst(at.Len())
	}
	if pt, ok := v.Type().Underlying().(*types.Pointer); ok {
		if at, ok := pt.Elem().Underlying().(*types.Array); ok {
			return konst(at.Len())
		}
	}
	return atom("len(" + fi.vname(v) + ")")
}

func (fi *funcInfo) term(v ssa.Value) Lin {
	if t, ok := fi.terms[v]; ok {
		return t
	}
	if fi.busy[v] {
		return atom(fi.vname(v))
	}
	fi.busy[v] = true
	defer delete(fi.busy, v)
	res := fi.term0(v)
	fi.terms[v] = res
	return res
}

func (fi *funcInfo) term0(v ssa.Value) Lin {
	if u, ok := v.(*ssa.UnOp); ok && u.Op == token.MUL {
		if base, f, ok := slotOf(u.X); ok && fi.intFields[f] {
			ep := fi.epoch[u][f]
			if r, ok := fi.rel[ep+"|"+f+"|"+fi.vname(base)]; ok {
				return r
			}
			va := fmt.Sprintf("val(%s.%s@%s)", fi.vname(base), f, ep)
			valAtomType[va] = u.Type()
			noteValAtom(va, u)
			return atom(va)
		}
	}
	if u, ok := v.(*ssa.UnOp); ok && u.Op == token.MUL {
		if first := sameCellLoad(u); first != nil { // the same element of a local array, read again (ext_x8.go)
			return fi.term(first)
		}
	}
	switch x := v.(type) {
	case *ssa.Const:
		if x.Value != nil && x.Value.Kind() == constant.Int {
			if n, ok := new(big.Int).SetString(x.Value.ExactString(), 10); ok {
				return konstBig(n)
			}
		}
	case *ssa.BinOp:
		if _, _, ok := isIntType(x.Type()); ok {
			switch x.Op {
			case token.ADD, token.SUB:
				a, b := fi.term(x.X), fi.term(x.Y)
				var r Lin
				if x.Op == token.ADD {
					r = a.add(b)
				} else {
					r = a.sub(b)
				}
				if fi.noOverflow(x, r) {
					return r
				}
				overflowOpaque++
			case token.MUL:
				a, b := fi.term(x.X), fi.term(x.Y)
				var r Lin
				ok := false
				if a.isConst() {
					r, ok = b.scale(a.c), true
				} else if b.isConst() {
					r, ok = a.scale(b.c), true
				}
				if ok && fi.noOverflow(x, r) {
					return r
				}
			case token.SHL:
				// x << k = x * 2^k when that does not overflow
				if k, ok := constIntVal(x.Y); ok && k >= 0 && k < 62 {
					r := fi.term(x.X).scale(new(big.Rat).SetInt(new(big.Int).Lsh(big.NewInt(1), uint(k))))
					if fi.noOverflow(x, r) {
						return r
					}
				}
			case token.QUO:
				// q = x / c, c>0 const, x>=0 provable: c*q <= x <= c*q + c-1 handled in facts (extraFacts)
			}
		}
	case *ssa.Call:
		if b, ok := x.Call.Value.(*ssa.Builtin); ok && b.Name() == "len" {
			return fi.lenOf(x.Call.Args[0])
		}
	case *ssa.Phi:
		if _, _, ok := isIntType(x.Type()); ok {
			var first *Lin
			same := true
			for _, e := range x.Edges {
				l := fi.term(e)
				if first == nil {
					first = &l
				} else if first.String() != l.String() {
					same = false
				}
			}
			if same && first != nil {
				if _, self := first.coef[fi.vname(x)]; !self {
					return *first
				}
			}
		}
	case *ssa.Extract:
		// contracts: copy / Read / ReadFull results handled in contractFacts
	case *ssa.ChangeType:
		if _, _, ok := isIntType(x.Type()); ok {
			return fi.term(x.X)
		}
	case *ssa.Convert:
		bt, st, ok1 := isIntType(x.Type())
		bf, sf, ok2 := isIntType(x.X.Type())
		if ok1 && ok2 && (bt > bf && (st || !sf) || bt == bf && st == sf) {
			return fi.term(x.X)
		}
	}
	return atom(fi.vname(v))
}

var overflowOpaque int
var splitLens = map[string]bool{}

// phiInfo describes a monotone induction phi: p = phi(init..., p+step...)
type phiInfo struct {
	inits    []ssa.Value
	steps    []int64
	stepVals []ssa.Value
}

func stepOf(v ssa.Value, p *ssa.Phi) (int64, bool) {
	b, ok := v.(*ssa.BinOp)
	if !ok {
		return 0, false
	}
	c, ok := b.Y.(*ssa.Const)
	if !ok || b.X != ssa.Value(p) || c.Value == nil || c.Value.Kind() != constant.Int {
		return 0, false
	}
	n, _ := constant.Int64Val(c.Value)
	switch b.Op {
	case token.ADD:
		return n, true
	case token.SUB:
		return -n, true
	}
	return 0, false
}

func analyzePhi(p *ssa.Phi) *phiInfo {
	if _, _, ok := isIntType(p.Type()); !ok {
		return nil
	}
	pi := &phiInfo{}
	for i, e := range p.Edges {
		if k, ok := stepOf(e, p); ok {
			pi.steps = append(pi.steps, k)
			pi.stepVals = append(pi.stepVals, e)
		} else {
			// an initial value must not depend on p: it comes in over an edge that is not a back
			// edge of the loop (its source is not dominated by the loop header), and is defined
			// outside the loop
			pred := p.Block().Preds[i]
			if p.Block().Dominates(pred) {
				return nil
			}
			if ins, ok := e.(ssa.Instruction); ok {
				if ins.Block() == p.Block() || p.Block().Dominates(ins.Block()) {
					return nil
				}
			}
			pi.inits = append(pi.inits, e)
		}
	}
	if len(pi.steps) == 0 || len(pi.inits) == 0 {
		return nil
	}
	if len(pi.inits) > 1 {
		// several ways into the loop: usable only if the initial values are the same value or
		// differ by constants (then the extreme one bounds the variable, see initBound)
		same := true
		for _, e := range pi.inits[1:] {
			if e != pi.inits[0] {
				same = false
			}
		}
		if same {
			pi.inits = pi.inits[:1]
		} else if len(pi.inits) > 4 {
			return nil
		}
	}
	return pi
}

// initBound: a term that bounds all initial values of the induction variable from below
// (lower = true) or from above; ok=false if they cannot be compared.
func (fi *funcInfo) initBound(pi *phiInfo, lower bool) (Lin, bool) {
	if len(pi.inits) == 1 {
		return fi.term(pi.inits[0]), true
	}
	var ts []Lin
	for _, e := range pi.inits {
		ts = append(ts, fi.term(e))
	}
	for i, m := range ts {
		ok := true
		for j, t := range ts {
			if i == j {
				continue
			}
			d := t.sub(m)
			if !d.isConst() {
				ok = false
				break
			}
			sign := d.c.Sign()
			if lower && sign < 0 || !lower && sign > 0 {
				ok = false
				break
			}
		}
		if ok {
			return m, true
		}
	}
	return Lin{}, false
}

// guardedBackEdge: some If in the loop compares the phi or its step value
func guarded(p *ssa.Phi, pi *phiInfo) bool {
	check := func(v ssa.Value) bool {
		for _, r := range *v.Referrers() {
			if b, ok := r.(*ssa.BinOp); ok {
				switch b.Op {
				case token.LSS, token.LEQ, token.GTR, token.GEQ:
					for _, rr := range *b.Referrers() {
						if _, ok := rr.(*ssa.If); ok {
							return true
						}
					}
				}
			}
		}
		return false
	}
	if check(p) {
		return true
	}
	for _, sv := range pi.stepVals {
		if check(sv) {
			return true
		}
	}
	return false
}

// noOverflow: prove r within type range using facts at x's block
func (fi *funcInfo) noOverflow(x *ssa.BinOp, r Lin) bool {
	lo, hi := typeRange(x.Type())
	if lo == nil {
		return false
	}
	if r.isConst() {
		return true
	}
	if p, ok := x.X.(*ssa.Phi); ok {
		if pi := analyzePhi(p); pi != nil && guarded(p, pi) {
			if _, ok := stepOf(x, p); ok {
				return true
			}
		}
	}
	facts, _ := splitNEQ(fi.factsAt(x.Block(), x))
	facts = append(facts, fi.rangeFacts(append([]Lin{r}, facts...)...)...)
	// r - lo >= 0 ; hi - r >= 0
	res := entails(facts, r.sub(konstBig(lo))) && entails(facts, konstBig(hi).sub(r))
	if !res && !fi.inOverflowProof {
		// try the full prover (case splits, division facts) once
		fi.inOverflowProof = true
		saved := fi.substs
		fi.substs = nil
		res = fi.prove([]Lin{r.sub(konstBig(lo)), konstBig(hi).sub(r)}, fi.factsAt(x.Block(), x), 1)
		fi.substs = saved
		fi.inOverflowProof = false
	}
	if !res && os.Getenv("DBG3") != "" {
		fmt.Println("OVERFLOW?", fi.fn.Name(), x.Name(), x.String(), "r=", r.String())
		for _, f := range facts {
			fmt.Println("     fact", f.String())
		}
	}
	return res
}

var valueByName = map[string]ssa.Value{}

// valAtomType: the integer type of a field-value atom.
var valAtomType = map[string]types.Type{}

var fiByFn = map[*ssa.Function]*funcInfo{}

func parentOf(v ssa.Value) *ssa.Function {
	if i, ok := v.(ssa.Instruction); ok {
		return i.Parent()
	}
	return v.Parent()
}

// contractFacts: library contracts for call results
func (fi *funcInfo) contractFacts(a string, v ssa.Value, seen map[string]bool) []Lin {
	var out []Lin
	var call *ssa.Call
	idx := 0
	switch x := v.(type) {
	case *ssa.Call:
		call = x
	case *ssa.Extract:
		if c, ok := x.Tuple.(*ssa.Call); ok {
			call, idx = c, x.Index
		}
	}
	if bo, ok := v.(*ssa.BinOp); ok {
		// bit operations on values with a known number of significant bits
		if bits, ok := unsignedBits(bo); ok {
			if tb, _, isInt := isIntType(bo.Type()); isInt && bits < tb-1 {
				out = append(out, atom(a), konstBig(new(big.Int).Sub(new(big.Int).Lsh(big.NewInt(1), uint(bits)), big.NewInt(1))).sub(atom(a)))
			}
		}
		return out
	}
	if call == nil {
		return nil
	}
	if idx != 0 {
		if sc := call.Common().StaticCallee(); sc != nil && inMod(sc) {
			for _, mk := range resultFacts(sc, idx) {
				l := mk(fi, a, call)
				out = append(out, l)
				out = append(out, fi.rangeFactsSeen(seen, l)...)
			}
		}
		for _, l := range tableResultFacts(fi, a, call, idx) { // a call through a fixed table of functions (ext_x8.go)
			out = append(out, l)
			out = append(out, fi.rangeFactsSeen(seen, l)...)
		}
		return out
	}
	com := call.Common()
	if b, ok := com.Value.(*ssa.Builtin); ok && b.Name() == "copy" {
		d, s2 := fi.lenOf(com.Args[0]), fi.lenOf(com.Args[1])
		out = append(out, atom(a), d.sub(atom(a)), s2.sub(atom(a)))
		out = append(out, fi.rangeFactsSeen(seen, d, s2)...)
		return out
	}
	if b, ok := com.Value.(*ssa.Builtin); ok && (b.Name() == "min" || b.Name() == "max") {
		if _, _, isInt := isIntType(call.Type()); isInt {
			for _, x := range com.Args {
				t := fi.term(x)
				if b.Name() == "min" {
					out = append(out, t.sub(atom(a)))
				} else {
					out = append(out, atom(a).sub(t))
				}
				out = append(out, fi.rangeFactsSeen(seen, t)...)
			}
		}
		return out
	}
	name := ""
	if sc := com.StaticCallee(); sc != nil {
		name = sc.String()
		if o := sc.Origin(); o != nil {
			name = o.String() // an instance of a generic library function
		}
	} else if com.IsInvoke() {
		name = com.Method.FullName()
	}
	if i := strings.IndexByte(name, '['); i > 0 && strings.HasPrefix(name, "slices.") {
		name = name[:i] // instance of a generic function of package slices
	}
	switch name {
	case "io.ReadFull":
		p := fi.lenOf(com.Args[1])
		out = append(out, atom(a), p.sub(atom(a)))
		out = append(out, fi.rangeFactsSeen(seen, p)...)
	case "(io.Reader).Read", "(*seehuhn.de/go/postscript.scanner).Read":
		var p Lin
		if com.IsInvoke() {
			p = fi.lenOf(com.Args[0])
		} else {
			p = fi.lenOf(com.Args[1])
		}
		out = append(out, atom(a), p.sub(atom(a)))
		out = append(out, fi.rangeFactsSeen(seen, p)...)
	case "strings.IndexByte", "strings.IndexAny", "strings.IndexRune", "strings.IndexFunc", "strings.LastIndexByte", "strings.LastIndexAny", "strings.LastIndexFunc",
		"bytes.IndexByte", "bytes.IndexAny", "bytes.IndexRune", "bytes.IndexFunc", "bytes.LastIndexByte", "bytes.LastIndexAny", "bytes.LastIndexFunc",
		"slices.Index", "slices.IndexFunc":
		// -1, or the index of a byte of the argument
		p := fi.lenOf(com.Args[0])
		out = append(out, atom(a).addK(1), p.sub(atom(a)).addK(-1))
		out = append(out, fi.rangeFactsSeen(seen, p)...)
	case "slices.BinarySearch", "slices.BinarySearchFunc":
		// the position where the target is found or would be inserted
		p := fi.lenOf(com.Args[0])
		out = append(out, atom(a), p.sub(atom(a)))
		out = append(out, fi.rangeFactsSeen(seen, p)...)
	case "strings.Index", "strings.LastIndex", "bytes.Index", "bytes.LastIndex":
		// -1, or the start of an occurrence: at most len(s) (the empty string occurs at the end)
		p := fi.lenOf(com.Args[0])
		out = append(out, atom(a).addK(1), p.sub(atom(a)))
		out = append(out, fi.rangeFactsSeen(seen, p)...)
	default:
		if sc := com.StaticCallee(); sc != nil && inMod(sc) {
			for _, mk := range resultFacts(sc, 0) {
				l := mk(fi, a, call)
				out = append(out, l)
				out = append(out, fi.rangeFactsSeen(seen, l)...)
			}
		}
		for _, l := range tableResultFacts(fi, a, call, 0) { // a call through a fixed table of functions (ext_x8.go)
			out = append(out, l)
			out = append(out, fi.rangeFactsSeen(seen, l)...)
		}
	}
	return out
}

func (fi *funcInfo) rangeFacts(ls ...Lin) []Lin {
	return fi.rangeFactsSeen(map[string]bool{}, ls...)
}

func (fi *funcInfo) rangeFactsSeen(seen map[string]bool, ls ...Lin) []Lin {
	var out []Lin
	for _, l := range ls {
		for a := range l.coef {
			if seen[a] {
				continue
			}
			seen[a] = true
			if strings.HasPrefix(a, "len") {
				out = append(out, slotFacts(a)...)
				out = append(out, classInvFacts(a)...)
				if splitLens[a] {
					out = append(out, atom(a).addK(-1))
				}
				out = append(out, atom(a))                                                    // >= 0
				out = append(out, konstBig(new(big.Int).Lsh(big.NewInt(1), 56)).sub(atom(a))) // <= 2^56
				continue
			}
			out = append(out, assumedFacts(a)...)
			out = append(out, classInvFacts(a)...)
			out = append(out, fieldRangeFacts(a)...)
			out = append(out, localObjRangeFacts(a)...)
			if t, ok := valAtomType[a]; ok {
				if lo, hi := typeRange(t); lo != nil {
					out = append(out, atom(a).sub(konstBig(lo)), konstBig(hi).sub(atom(a)))
				}
			}
			if v, ok := valueByName[a]; ok {
				if fi2 := fiByFn[parentOf(v)]; fi2 != nil {
					out = append(out, fi2.contractFacts(a, v, seen)...)
				}
				if p, ok := v.(*ssa.Phi); ok {
					if cr := phiConstRange(p); cr != nil {
						out = append(out, atom(a).addK(-cr.lo), konst(cr.hi).sub(atom(a)))
					}
				}
				if p, ok := v.(*ssa.Phi); ok {
					if pi := analyzePhi(p); pi != nil && guarded(p, pi) {
						allPos, allNeg := true, true
						for _, k := range pi.steps {
							if k < 0 {
								allPos = false
							}
							if k > 0 {
								allNeg = false
							}
						}
						fi2 := fiByFn[p.Parent()]
						if fi2 != nil && !fi2.busy[p] {
							if allPos {
								if init, ok := fi2.initBound(pi, true); ok {
									if _, self := init.coef[a]; !self {
										out = append(out, atom(a).sub(init))
										out = append(out, fi2.rangeFactsSeen(seen, init)...)
									}
								}
							}
							if allNeg {
								if init, ok := fi2.initBound(pi, false); ok {
									if _, self := init.coef[a]; !self {
										out = append(out, init.sub(atom(a)))
										out = append(out, fi2.rangeFactsSeen(seen, init)...)
									}
								}
							}
						}
					}
				}
				if par, ok := v.(*ssa.Parameter); ok {
					if paramNonNegative(par) {
						out = append(out, atom(a))
					}
					if lo, hi, ok := paramConstRange(par); ok {
						out = append(out, atom(a).addK(-lo), konst(hi).sub(atom(a)))
					}
				}
				lo, hi := typeRange(v.Type())
				if lo != nil {
					out = append(out, atom(a).sub(konstBig(lo)))
					out = append(out, konstBig(hi).sub(atom(a)))
				}
			}
		}
	}
	return out
}

// factsAt: dominating branch facts for block b
func (fi *funcInfo) factsAt(b *ssa.BasicBlock, at ssa.Instruction) []Lin {
	var facts []Lin
	facts = append(facts, fi.entryFacts()...)
	for d := b; d != nil; d = d.Idom() {
		idom := d.Idom()
		if idom == nil {
			break
		}
		// facts from edges into d: only if d has a single predecessor p ending in If
		if len(d.Preds) == 1 {
			p := d.Preds[0]
			if iff, ok := p.Instrs[len(p.Instrs)-1].(*ssa.If); ok {
				truth := p.Succs[0] == d
				if p.Succs[0] == p.Succs[1] {
					continue
				}
				facts = append(facts, fi.condFacts(iff.Cond, truth)...)
			}
		}
	}
	facts = append(facts, fi.tableFacts(b)...) // look-ups in read-only tables under key == constant (ext_x3.go)
	return facts
}

func (fi *funcInfo) condFacts(c ssa.Value, truth bool) []Lin {
	if gf := fi.guardFacts(c, truth); len(gf) > 0 {
		return gf
	}
	if pf := fi.predFactsX1(c, truth); len(pf) > 0 {
		return pf // the condition is the result of a small module predicate (ext_x1.go)
	}
	if bf := fi.boolResultFacts(c, truth); len(bf) > 0 {
		return bf
	}
	if lf := fi.leafCondFacts(c, truth); len(lf) > 0 { // the boolean result of a leaf accessor (ext_x8.go)
		return lf
	}
	switch x := c.(type) {
	case *ssa.UnOp:
		if x.Op == token.NOT {
			return fi.condFacts(x.X, !truth)
		}
	case *ssa.BinOp:
		if _, _, ok := isIntType(x.X.Type()); !ok {
			return nil
		}
		a, b := fi.term(x.X), fi.term(x.Y)
		op := x.Op
		if !truth {
			switch op {
			case token.LSS:
				op = token.GEQ
			case token.LEQ:
				op = token.GTR
			case token.GTR:
				op = token.LEQ
			case token.GEQ:
				op = token.LSS
			case token.EQL:
				op = token.NEQ
			case token.NEQ:
				op = token.EQL
			}
		}
		switch op {
		case token.LSS: // a < b  => b - a - 1 >= 0
			return []Lin{b.sub(a).addK(-1)}
		case token.LEQ:
			return []Lin{b.sub(a)}
		case token.GTR:
			return []Lin{a.sub(b).addK(-1)}
		case token.GEQ:
			return []Lin{a.sub(b)}
		case token.EQL:
			return []Lin{a.sub(b), b.sub(a)}
		case token.NEQ:
			d := a.sub(b)
			d.coef[neqMarker] = big.NewRat(1, 1)
			return []Lin{d}
		}
	}
	return nil
}

// neqMarker tags a linear form d that is known to be != 0 (not a >= 0 fact).
const neqMarker = "\x00neq"

func splitNEQ(facts []Lin) (geq, neq []Lin) {
	for _, f := range facts {
		if _, ok := f.coef[neqMarker]; ok {
			d := f.clone()
			delete(d.coef, neqMarker)
			neq = append(neq, d)
		} else {
			geq = append(geq, f)
		}
	}
	return
}

var paramNonNegCache = map[*ssa.Parameter]int{}

// paramNonNegative: the integer parameter of an unexported module function
// whose every call is static receives a provably non-negative argument at
// every call site.
func paramNonNegative(p *ssa.Parameter) bool {
	if r, ok := paramNonNegCache[p]; ok {
		return r == 1
	}
	paramNonNegCache[p] = 0 // cycles: assume not
	fn := p.Parent()
	if fn == nil || fn.Parent() != nil || exportedAPI(fn) || !inMod(fn) {
		return false
	}
	if _, _, ok := isIntType(p.Type()); !ok {
		return false
	}
	idx := -1
	for i, q := range fn.Params {
		if q == p {
			idx = i
		}
	}
	ncalls := 0
	for _, caller := range feCtx.modFuncs {
		for _, b := range caller.Blocks {
			for _, ins := range b.Instrs {
				// the function must not be used as a value
				for _, op := range ins.Operands(nil) {
					if *op == ssa.Value(fn) {
						if call, ok := ins.(ssa.CallInstruction); !ok || call.Common().Value != ssa.Value(fn) {
							return false
						}
					}
				}
				call, ok := ins.(ssa.CallInstruction)
				if !ok || call.Common().StaticCallee() != fn {
					continue
				}
				if _, isCall := ins.(*ssa.Call); !isCall {
					return false
				}
				ncalls++
				arg := call.Common().Args[idx]
				cfi := newFuncInfo(caller)
				t := cfi.term(arg)
				facts := cfi.factsAt(b, ins)
				if !cfi.prove([]Lin{t}, facts, 1) {
					return false
				}
			}
		}
	}
	if ncalls == 0 {
		return false
	}
	paramNonNegCache[p] = 1
	return true
}

// paramConstRange: every call site of the unexported function passes a constant.
func paramConstRange(p *ssa.Parameter) (lo, hi int64, ok bool) {
	fn := p.Parent()
	if fn == nil || fn.Parent() != nil || exportedAPI(fn) || !inMod(fn) {
		return 0, 0, false
	}
	idx := -1
	for i, q := range fn.Params {
		if q == p {
			idx = i
		}
	}
	n := 0
	for _, caller := range feCtx.modFuncs {
		for _, b := range caller.Blocks {
			for _, ins := range b.Instrs {
				for _, op := range ins.Operands(nil) {
					if *op == ssa.Value(fn) {
						if call, isCall := ins.(ssa.CallInstruction); !isCall || call.Common().Value != ssa.Value(fn) {
							return 0, 0, false
						}
					}
				}
				call, isCall := ins.(ssa.CallInstruction)
				if !isCall || call.Common().StaticCallee() != fn {
					continue
				}
				k, isC := constInt(call.Common().Args[idx])
				if !isC {
					return 0, 0, false
				}
				if n == 0 || k < lo {
					lo = k
				}
				if n == 0 || k > hi {
					hi = k
				}
				n++
			}
		}
	}
	return lo, hi, n > 0
}

// unsignedBits: v is a non-negative value that fits into the returned number of bits: a
// conversion of an unsigned narrower integer, a non-negative constant, or |, &, << (by a
// constant) of such values.
func unsignedBits(v ssa.Value) (int, bool) {
	switch x := v.(type) {
	case *ssa.Const:
		if x.Value != nil && x.Value.Kind() == constant.Int {
			if n, ok := constant.Int64Val(x.Value); ok && n >= 0 {
				return big.NewInt(n).BitLen(), true
			}
		}
	case *ssa.Convert:
		bf, sf, ok := isIntType(x.X.Type())
		bt, _, ok2 := isIntType(x.Type())
		if ok && ok2 && !sf && bt > bf {
			return bf, true
		}
		if ok && ok2 && bt >= bf {
			if n, ok := unsignedBits(x.X); ok && n < bt {
				return n, true
			}
		}
	case *ssa.UnOp:
		if x.Op == token.MUL {
			if bf, sf, ok := isIntType(x.Type()); ok && !sf && bf <= 16 {
				return bf, true
			}
		}
	case *ssa.BinOp:
		switch x.Op {
		case token.OR, token.XOR:
			a, ok1 := unsignedBits(x.X)
			b, ok2 := unsignedBits(x.Y)
			if ok1 && ok2 {
				if b > a {
					a = b
				}
				return a, true
			}
		case token.AND:
			a, ok1 := unsignedBits(x.X)
			b, ok2 := unsignedBits(x.Y)
			if ok1 && ok2 && b < a {
				return b, true
			}
			if ok1 {
				return a, true
			}
			if ok2 {
				return b, true
			}
		case token.SHL:
			if c, ok := x.Y.(*ssa.Const); ok && c.Value != nil {
				if n, ok := constant.Int64Val(constant.ToInt(c.Value)); ok && n >= 0 && n < 64 {
					if a, ok := unsignedBits(x.X); ok {
						return a + int(n), true
					}
				}
			}
		}
	}
	if bf, sf, ok := isIntType(v.Type()); ok && !sf && bf <= 16 {
		return bf, true
	}
	return 0, false
}

// guardFacts: the condition says that the error a module function returned is nil: what that
// function has checked about its integer arguments then holds (guardSummary).
func (fi *funcInfo) guardFacts(c ssa.Value, truth bool) []Lin {
	bo, ok := c.(*ssa.BinOp)
	if !ok || (bo.Op != token.EQL && bo.Op != token.NEQ) {
		return nil
	}
	var ev ssa.Value
	switch {
	case isNilConst(bo.Y):
		ev = bo.X
	case isNilConst(bo.X):
		ev = bo.Y
	default:
		return nil
	}
	if (bo.Op == token.EQL) != truth {
		return nil // the error is not nil on this edge
	}
	var call *ssa.Call
	switch x := ev.(type) {
	case *ssa.Call:
		call = x
	case *ssa.Extract:
		if cl, ok := x.Tuple.(*ssa.Call); ok && x.Index == cl.Type().(*types.Tuple).Len()-1 {
			call = cl
		}
	}
	if call == nil {
		return nil
	}
	sc := call.Call.StaticCallee()
	if sc == nil || !inMod(sc) {
		return nil
	}
	var out []Lin
	for _, gf := range guardSummary(sc) {
		if l, ok := gf(fi, call); ok {
			out = append(out, l)
		}
	}
	for _, gf := range nilErrResultFacts(sc) { // the integer results under "the error is nil" (ext_y1.go)
		if l, ok := gf(fi, call); ok {
			out = append(out, l)
		}
	}
	out = append(out, fi.nilErrFieldFactsAt(call, sc)...) // slice fields of the object under "the error is nil" (ext_y1.go)
	return out
}
