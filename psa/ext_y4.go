package main

// ext_y4.go — round 6, worker D.

import (
	"fmt"
	"go/constant"
	"go/token"
	"go/types"
	"strings"

	"golang.org/x/tools/go/ssa"
)

// fontMatrixDefaultY4 decides the default FontMatrix of type1.Read on the SSA form: the code that
// looks up the key "FontMatrix" in the font dictionary — in Read or in a function Read calls — is
// evaluated from the block of that look-up on, with a dictionary that has no such entry (every
// look-up finds nothing, every type assertion of a value that was not built in the region fails),
// until it returns.  The six numbers that then reach the matrix of the font — stored into a field
// of the matrix type, or returned by the helper — must be 0.001 0 0 0.001 0 0.  Whether the
// default is written as an array of PostScript objects that is converted like an entry of the
// file or as a matrix literal makes no difference.
func (c *Ctx) fontMatrixDefaultY4(read *ssa.Function) (bool, string) {
	var lks []*ssa.Lookup
	for f := range c.reachFuncs(read, 4) {
		eachInstr(f, func(ins ssa.Instruction) {
			if lk, ok := ins.(*ssa.Lookup); ok {
				if k, isC := lk.Index.(*ssa.Const); isC && k.Value != nil && k.Value.Kind() == constant.String && constant.StringVal(k.Value) == "FontMatrix" {
					if _, isMap := lk.X.Type().Underlying().(*types.Map); isMap {
						lks = append(lks, lk)
					}
				}
			}
		})
	}
	if len(lks) == 0 {
		return false, "no look-up of the key FontMatrix in the font dictionary"
	}
	isMatrix := func(t types.Type) bool {
		a, ok := t.Underlying().(*types.Array)
		if !ok || a.Len() != 6 {
			return false
		}
		b, ok := a.Elem().Underlying().(*types.Basic)
		return ok && b.Info()&types.IsFloat != 0
	}
	why := ""
	found := 0
	for _, lk := range lks {
		g := lk.Parent()
		blk := lk.Block()
		before := map[ssa.Instruction]bool{}
		for _, ins := range blk.Instrs {
			if ins == ssa.Instruction(lk) {
				break
			}
			before[ins] = true
		}
		ev := &ssaEval{c: c, bind: map[ssa.Value]sv{}, mem: map[string]sv{}, arrays: true, makeLists: true, maxDepth: 6}
		ev.lookup = func(x *ssa.Lookup, m, k sv) (sv, bool) {
			if x.CommaOk {
				return sv{k: svTuple, tup: []sv{{k: svNil}, boolV(false)}}, true
			}
			return sv{k: svNil}, true
		}
		ev.call = func(call ssa.CallInstruction, args []sv) (sv, bool) {
			if call == nil {
				if len(args) == 2 && strings.HasPrefix(args[0].s, "typeassert:") {
					if args[1].typ != nil && args[1].known() && args[1].k != svNil {
						if args[1].typ.String() == strings.TrimPrefix(args[0].s, "typeassert:") {
							return sv{k: svTuple, tup: []sv{args[1], boolV(true)}}, true
						}
					}
					return sv{k: svTuple, tup: []sv{{k: svNil}, boolV(false)}}, true
				}
				return sv{}, false
			}
			if before[call] {
				// what the function did before it turned to the FontMatrix entry is not the matter
				return sv{}, true
			}
			return sv{}, false
		}
		ev.load = func(ld *ssa.UnOp, addr sv) (sv, bool) {
			if strings.HasPrefix(addr.s, "global:") {
				return symV(addr.s[strings.LastIndex(addr.s, ".")+1:]), true
			}
			return sv{}, false
		}
		ev.oracle = func(op token.Token, x, y sv) (bool, bool) { return false, false }
		fr := &frame{vals: map[ssa.Value]sv{}}
		_, _, ret := ev.runBlocks(fr, blk, nil, nil)
		var got []sv
		// stored into a field of the matrix type
		for _, ef := range ev.effects {
			st, ok := ef.ins.(*ssa.Store)
			if !ok || ef.what != "store" || len(ef.args) == 0 {
				continue
			}
			if fa, ok := st.Addr.(*ssa.FieldAddr); ok && isMatrix(st.Val.Type()) && fa != nil {
				if el, ok := ev.elems(ef.args[0]); ok && len(el) == 6 {
					got = el
				} else if len(ef.args[0].tup) == 6 {
					got = ef.args[0].tup
				}
			}
		}
		if got == nil && g != read {
			res := g.Signature.Results()
			for i := 0; i < res.Len() && i < len(ret); i++ {
				if isMatrix(res.At(i).Type()) {
					if el, ok := ev.elems(ret[i]); ok && len(el) == 6 {
						got = el
					} else if len(ret[i].tup) == 6 {
						got = ret[i].tup
					}
				}
			}
		}
		if got == nil {
			why = fmt.Sprintf("%s: with no FontMatrix entry no matrix is produced (%s) ret=%v", c.fname(g), ev.why, ret)
			continue
		}
		want := []float64{0.001, 0, 0, 0.001, 0, 0}
		same := true
		var shown []string
		for i, x := range got {
			shown = append(shown, ev.render(x))
			switch {
			case x.k == svFloat && x.f == want[i]:
			case x.k == svInt && float64(x.i) == want[i]:
			default:
				same = false
			}
		}
		if !same {
			return false, "with no FontMatrix entry the matrix is [" + strings.Join(shown, " ") + "]"
		}
		found++
	}
	if found == 0 {
		return false, why
	}
	return true, ""
}
