package main

import (
	"go/token"

	"golang.org/x/tools/go/ssa"
)

// Helpers of worker E (C11/C12/C13 rules).

// untestedPath: is there a CFG path from the call that produced the error value e on which e is
// never looked at — not compared with nil or an EOF sentinel, not returned, stored, wrapped or
// passed on — and which nevertheless ends in a successful return (nil error), in a return of a
// function without error result, or in the call being executed again (the value is overwritten)?
// On such a path a fault reported by the call is swallowed whatever it is.  `if marker found {
// /* pass */ } else if err != nil { return err }` is the typical shape: the first branch leaves the
// region without the error ever having been consulted.  Returns a description of the path, or "".
//
// The walk is path-insensitive and stops (successfully) at the first consultation of e, so it
// reports less than swallowPath where both apply; it covers the paths swallowPath never sees
// because they do not pass through an `err != nil` test at all.
func (a *ioAnalysis) untestedPath(e ssa.Value, call ssa.Instruction) string {
	// values that carry e
	derived := map[ssa.Value]bool{e: true}
	for changed := true; changed; {
		changed = false
		for v := range derived {
			refs := v.Referrers()
			if refs == nil {
				continue
			}
			for _, r := range *refs {
				var nv ssa.Value
				switch r := r.(type) {
				case *ssa.Phi:
					nv = r
				case *ssa.MakeInterface:
					nv = r
				case *ssa.ChangeInterface:
					nv = r
				case *ssa.TypeAssert:
					nv = r
				case *ssa.Extract:
					if _, isTA := r.Tuple.(*ssa.TypeAssert); isTA {
						nv = r
					}
				case *ssa.BinOp:
					nv = r
				case *ssa.UnOp:
					if r.Op == token.NOT {
						nv = r
					}
				}
				if nv != nil && !derived[nv] {
					derived[nv] = true
					changed = true
				}
			}
		}
	}
	uses := func(ins ssa.Instruction) bool {
		for _, op := range ins.Operands(nil) {
			if *op != nil && derived[*op] {
				return true
			}
		}
		return false
	}
	fn := call.Parent()
	ei := errIndex(fn.Signature)
	seen := map[*ssa.BasicBlock]bool{}
	var walk func(b *ssa.BasicBlock, from int) string
	walk = func(b *ssa.BasicBlock, from int) string {
		for _, ins := range b.Instrs[from:] {
			if ins == call {
				return "the call is executed again at " + a.c.pos(call.Pos()) + " before its previous error was looked at"
			}
			switch x := ins.(type) {
			case *ssa.Return:
				if ei < 0 {
					return "return without error result at " + a.c.pos(x.Pos())
				}
				for _, v := range retValues(x, ei) {
					if derived[v] {
						return ""
					}
				}
				for _, v := range retValues(x, ei) {
					if isNilConst(v) {
						return "returns nil at " + a.c.pos(x.Pos())
					}
				}
				return ""
			case *ssa.Panic:
				return ""
			case *ssa.Store, *ssa.MapUpdate, *ssa.Send, *ssa.Call, *ssa.Defer, *ssa.Go:
				if uses(ins) {
					return "" // handed on: covered by the propagation rule
				}
			case *ssa.If:
				if derived[x.Cond] {
					// a consultation of e.  Only the edge on which e is known to differ from an EOF
					// sentinel (but may still be nil or a fault) continues the walk.
					if m, ok := asCmp(cond{x.Cond, true, b}); ok && (isEOFGlobal(m.x) || isEOFGlobal(m.y)) && (derived[m.x] || derived[m.y]) {
						neqEdge := 1
						if m.op == token.NEQ {
							neqEdge = 0
						}
						s := b.Succs[neqEdge]
						if seen[s] {
							return ""
						}
						seen[s] = true
						return walk(s, 0)
					}
					return ""
				}
			}
		}
		for _, s := range b.Succs {
			if seen[s] {
				continue
			}
			seen[s] = true
			if w := walk(s, 0); w != "" {
				return w
			}
		}
		return ""
	}
	idx := instrIndex(call)
	if idx < 0 {
		return ""
	}
	return walk(call.Block(), idx+1)
}
