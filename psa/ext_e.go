package main

import (
	"fmt"
	"go/token"
	"go/types"
	"sort"
	"strings"

	"golang.org/x/tools/go/ssa"
)

// Helpers of worker E (C11/C12/C13 rules).

// untestedPath: is there a CFG path from the call that produced the error value e on which e is
// never looked at — not compared with nil or an EOF sentinel, not returned, stored, wrapped or
// passed on — and which nevertheless ends in a successful return (nil error), in a return of a
// function without error result, or in the call being executed again (the value is overwritten)?
// On such a path a fault reported by the call is swallowed whatever it is.  `if marker found {
// /* pass */ } else if err != nil { return err }` is the typical shape: the first branch leaves the
// region without the error ever having been consulted.  Returns a description of the path, or "".
//
// The walk is path-insensitive and stops (successfully) at the first consultation of e, so it
// reports less than swallowPath where both apply; it covers the paths swallowPath never sees
// because they do not pass through an `err != nil` test at all.
func (a *ioAnalysis) untestedPath(e ssa.Value, call ssa.Instruction) string {
	// values that carry e
	derived := map[ssa.Value]bool{e: true}
	for changed := true; changed; {
		changed = false
		for v := range derived {
			refs := v.Referrers()
			if refs == nil {
				continue
			}
			for _, r := range *refs {
				var nv ssa.Value
				switch r := r.(type) {
				case *ssa.Phi:
					nv = r
				case *ssa.MakeInterface:
					nv = r
				case *ssa.ChangeInterface:
					nv = r
				case *ssa.TypeAssert:
					nv = r
				case *ssa.Extract:
					if _, isTA := r.Tuple.(*ssa.TypeAssert); isTA {
						nv = r
					}
				case *ssa.BinOp:
					nv = r
				case *ssa.UnOp:
					if r.Op == token.NOT {
						nv = r
					}
				}
				if nv != nil && !derived[nv] {
					derived[nv] = true
					changed = true
				}
			}
		}
	}
	uses := func(ins ssa.Instruction) bool {
		for _, op := range ins.Operands(nil) {
			if *op != nil && derived[*op] {
				return true
			}
		}
		return false
	}
	fn := call.Parent()
	ei := errIndex(fn.Signature)
	seen := map[*ssa.BasicBlock]bool{}
	var walk func(b *ssa.BasicBlock, from int) string
	walk = func(b *ssa.BasicBlock, from int) string {
		for _, ins := range b.Instrs[from:] {
			if ins == call {
				return "the call is executed again at " + a.c.pos(call.Pos()) + " before its previous error was looked at"
			}
			switch x := ins.(type) {
			case *ssa.Return:
				if ei < 0 {
					if yieldReturnsError(b) {
						return ""
					}
					return "return without error result at " + a.c.pos(x.Pos())
				}
				for _, v := range retValues(x, ei) {
					if derived[v] {
						return ""
					}
				}
				for _, v := range retValues(x, ei) {
					if isNilConst(v) {
						return "returns nil at " + a.c.pos(x.Pos())
					}
				}
				return ""
			case *ssa.Panic:
				return ""
			case *ssa.Store, *ssa.MapUpdate, *ssa.Send, *ssa.Call, *ssa.Defer, *ssa.Go:
				if uses(ins) {
					return "" // handed on: covered by the propagation rule
				}
			case *ssa.If:
				if a.consult[x.Cond] && !derived[x.Cond] {
					return "" // a result of the same call that announces the error is tested (ext_x7.go)
				}
				if derived[x.Cond] {
					// a consultation of e.  Only the edge on which e is known to differ from an EOF
					// sentinel (but may still be nil or a fault) continues the walk.
					if m, ok := asCmp(cond{x.Cond, true, b}); ok && (isEOFGlobal(m.x) || isEOFGlobal(m.y)) && (derived[m.x] || derived[m.y]) {
						neqEdge := 1
						if m.op == token.NEQ {
							neqEdge = 0
						}
						s := b.Succs[neqEdge]
						if seen[s] {
							return ""
						}
						seen[s] = true
						return walk(s, 0)
					}
					return ""
				}
			}
		}
		for _, s := range b.Succs {
			if seen[s] {
				continue
			}
			seen[s] = true
			if w := walk(s, 0); w != "" {
				return w
			}
		}
		return ""
	}
	idx := instrIndex(call)
	if idx < 0 {
		return ""
	}
	return walk(call.Block(), idx+1)
}

// constChoices: the integer constants v can be: a constant, or a choice (φ) between such values,
// possibly through a conversion (φ cycles of a loop contribute nothing of their own).  ok is false
// when v can be anything else.
func constChoices(v ssa.Value, depth int) ([]int64, bool) {
	return constChoicesSeen(v, map[ssa.Value]bool{})
}

func constChoicesSeen(v ssa.Value, seen map[ssa.Value]bool) ([]int64, bool) {
	if seen[v] {
		return nil, true
	}
	seen[v] = true
	switch x := v.(type) {
	case *ssa.Const:
		k, ok := constInt(x)
		if !ok {
			return nil, false
		}
		return []int64{k}, true
	case *ssa.Phi:
		var out []int64
		for _, e := range x.Edges {
			ks, ok := constChoicesSeen(e, seen)
			if !ok {
				return nil, false
			}
			out = append(out, ks...)
		}
		return out, true
	case *ssa.Convert:
		return constChoicesSeen(x.X, seen)
	case *ssa.ChangeType:
		return constChoicesSeen(x.X, seen)
	case *ssa.Call:
		// the choice was extracted into a function: the union over its returns
		callee := x.Call.StaticCallee()
		if callee == nil || len(callee.Blocks) == 0 || callee.Signature.Results().Len() != 1 {
			return nil, false
		}
		var out []int64
		for _, r := range returns(callee) {
			if len(r.Results) != 1 {
				return nil, false
			}
			ks, ok := constChoicesSeen(r.Results[0], seen)
			if !ok {
				return nil, false
			}
			out = append(out, ks...)
		}
		return out, len(out) > 0
	}
	return nil, false
}

// yieldReturnsError: block b of a range-over-func loop body (go/ssa compiles the body of `for … :=
// range seq` into a synthetic yield function) is the lowering of `return …, err` in the enclosing
// function: it stores a value into the enclosing function's error result cell, records a positive
// exit code in the loop's jump cell and makes yield return false; the enclosing function, on finding
// that exit code after the iterator call, returns the contents of the result cell.  Both halves are
// checked on the SSA form, so an assignment to a named result followed by `break` or `continue` is
// not taken for a return.
func yieldReturnsError(b *ssa.BasicBlock) bool {
	fn := b.Parent()
	parent := fn.Parent()
	if parent == nil || fn.Synthetic != "range-over-func yield" || len(b.Instrs) == 0 {
		return false
	}
	ret, ok := b.Instrs[len(b.Instrs)-1].(*ssa.Return)
	if !ok || len(ret.Results) != 1 {
		return false
	}
	if more, isC := constBool(ret.Results[0]); !isC || more {
		return false
	}
	pei := errIndex(parent.Signature)
	if pei < 0 {
		return false
	}
	fvIndex := func(v ssa.Value) int {
		fv, ok := v.(*ssa.FreeVar)
		if !ok {
			return -1
		}
		for i, x := range fn.FreeVars {
			if x == fv {
				return i
			}
		}
		return -1
	}
	resIdx, jumpIdx := -1, -1
	var code int64
	for _, ins := range b.Instrs {
		st, ok := ins.(*ssa.Store)
		if !ok {
			continue
		}
		i := fvIndex(st.Addr)
		if i < 0 {
			continue
		}
		if p, ok := st.Addr.Type().Underlying().(*types.Pointer); ok && isErrorType(p.Elem()) && !isNilConst(st.Val) {
			resIdx = i
		} else if k, isC := constInt(st.Val); isC && k > 0 {
			jumpIdx, code = i, k
		}
	}
	if resIdx < 0 || jumpIdx < 0 {
		return false
	}
	// the enclosing function: the cells bound to the two free variables
	var resCell, jumpCell ssa.Value
	eachInstr(parent, func(ins ssa.Instruction) {
		if mc, ok := ins.(*ssa.MakeClosure); ok && mc.Fn == fn && resIdx < len(mc.Bindings) && jumpIdx < len(mc.Bindings) {
			resCell, jumpCell = mc.Bindings[resIdx], mc.Bindings[jumpIdx]
		}
	})
	if resCell == nil || jumpCell == nil {
		return false
	}
	found := false
	for _, pb := range parent.Blocks {
		ifi, ok := pb.Instrs[len(pb.Instrs)-1].(*ssa.If)
		if !ok {
			continue
		}
		m, ok := asCmp(cond{ifi.Cond, true, pb})
		if !ok || m.op != token.EQL {
			continue
		}
		ld, ok := m.x.(*ssa.UnOp)
		if k, isC := constInt(m.y); !ok || !isC || k != code || ld.Op != token.MUL || ld.X != jumpCell {
			continue
		}
		tb := pb.Succs[0]
		if r, ok := tb.Instrs[len(tb.Instrs)-1].(*ssa.Return); ok && pei < len(r.Results) {
			if rl, ok := r.Results[pei].(*ssa.UnOp); ok && rl.Op == token.MUL && rl.X == resCell {
				found = true
			}
		}
	}
	return found
}

// ---- look-ahead results are as long as the input allows, not as long as asked for --------------

// isScannerLookAhead: a method of the scanner with the shape (n int) []byte — the look-ahead, which
// hands back fewer bytes than asked for when the input ends or the reader fails first.
func isScannerLookAhead(g *ssa.Function, scannerT *types.TypeName) bool {
	if g == nil || g.Signature.Recv() == nil || !pointsTo(g.Signature.Recv().Type(), scannerT) {
		return false
	}
	res, par := g.Signature.Results(), g.Signature.Params()
	if res.Len() != 1 || par.Len() != 1 || res.At(0).Type().String() != "[]byte" {
		return false
	}
	b, ok := par.At(0).Type().Underlying().(*types.Basic)
	return ok && b.Info()&types.IsInteger != 0
}

// isLenOf: v is len(x) with x resolving to target.
func isLenOf(v ssa.Value, target ssa.Value) bool {
	call, ok := origin(v).(*ssa.Call)
	if !ok {
		return false
	}
	b, ok := call.Common().Value.(*ssa.Builtin)
	return ok && b.Name() == "len" && len(call.Common().Args) == 1 && origin(call.Common().Args[0]) == target
}

// indexWithin: on entry to block b it is known that index value i is a valid index of slice v
// (bound = 0) or a valid upper slice bound (bound = 1): for a constant from a dominating constant
// lower bound on len(v), otherwise from a dominating comparison of i with len(v).
func indexWithin(b *ssa.BasicBlock, v ssa.Value, i ssa.Value, bound int64) bool {
	conds := domConds(b)
	isLen := func(x ssa.Value) bool { return isLenOf(x, v) }
	if k, isC := constInt(i); isC {
		if k < 0 {
			return false
		}
		lb, ok := lowerBoundConst(conds, isLen)
		return ok && lb >= k+1-bound || k == 0 && bound == 1
	}
	for _, cd := range conds {
		m, ok := asCmp(cd)
		if !ok {
			continue
		}
		x, y, op := m.x, m.y, m.op
		if isLen(x) {
			x, y, op = y, x, swapOp(op)
		}
		if origin(x) != origin(i) || !isLen(y) {
			continue
		}
		if op == token.LSS || bound == 1 && (op == token.LEQ || op == token.EQL) {
			return true
		}
	}
	return false
}

// shortPeekRule: a fault or the end of a cut-off input directly behind the current position makes the
// scanner's look-ahead return fewer bytes than were asked for.  Every element access and every
// re-slicing of a look-ahead result must therefore be covered by a test of its length (comparing
// the whole result with a string, ranging over it and taking its length are always fine);
// otherwise the fault surfaces as an index-out-of-range panic instead of an error.
func (c *Ctx) shortPeekRule(rule string, scannerT *types.TypeName) {
	for _, f := range c.modFuncs {
		fname := c.fname(f)
		eachInstr(f, func(ins ssa.Instruction) {
			call, ok := ins.(*ssa.Call)
			if !ok || !isScannerLookAhead(call.Common().StaticCallee(), scannerT) {
				return
			}
			// the result and the values it flows into unchanged (local cells, φ)
			vals := map[ssa.Value]bool{call: true}
			for changed := true; changed; {
				changed = false
				eachInstr(f, func(i2 ssa.Instruction) {
					v, ok := i2.(ssa.Value)
					if !ok || vals[v] {
						return
					}
					if o := origin(v); o != v && vals[o] {
						vals[v], changed = true, true
						return
					}
					if phi, ok := i2.(*ssa.Phi); ok {
						for _, e := range phi.Edges {
							if vals[e] {
								vals[v], changed = true, true
							}
						}
					}
				})
			}
			bad := ""
			n := 0
			eachInstr(f, func(i2 ssa.Instruction) {
				if bad != "" {
					return
				}
				switch x := i2.(type) {
				case *ssa.IndexAddr:
					if vals[x.X] {
						n++
						if !indexWithin(x.Block(), origin(x.X), x.Index, 0) {
							bad = "element " + c.valShape(x.Index) + " is accessed at " + c.pos(x.Pos())
						}
					}
				case *ssa.Index:
					if vals[x.X] {
						n++
						if !indexWithin(x.Block(), origin(x.X), x.Index, 0) {
							bad = "element " + c.valShape(x.Index) + " is accessed at " + c.pos(x.Pos())
						}
					}
				case *ssa.Slice:
					if vals[x.X] {
						for _, bd := range []ssa.Value{x.Low, x.High, x.Max} {
							if bd == nil {
								continue
							}
							n++
							if !indexWithin(x.Block(), origin(x.X), bd, 1) {
								bad = "it is re-sliced with bound " + c.valShape(bd) + " at " + c.pos(x.Pos())
							}
						}
					}
				}
			})
			c.check(bad == "", rule, fname, "look-ahead result accessed only within its length", call.Pos(), fmt.Sprintf("%d element accesses / re-slicings, all covered by a length test", n),
				"the scanner's look-ahead returns fewer bytes than asked for when the input ends or the reader fails first, but "+bad+" without a test of its length: a read fault or a cut-off file at that offset causes an index-out-of-range panic instead of an error")
		})
	}
}

// ---- a reader that is asked only once must deliver everything it can ---------------------------

// isReadShaped: an implementation of io.Reader's method: Read(p []byte) (int, error).
func isReadShaped(g *ssa.Function) bool {
	if g == nil || g.Signature.Recv() == nil || g.Name() != "Read" {
		return false
	}
	res, par := g.Signature.Results(), g.Signature.Params()
	if res.Len() != 2 || par.Len() != 1 || par.At(0).Type().String() != "[]byte" || !isErrorType(res.At(1).Type()) {
		return false
	}
	b, ok := res.At(0).Type().Underlying().(*types.Basic)
	return ok && b.Kind() == types.Int
}

// fillsBuffer: whenever g (Read-shaped) returns without a definitely non-nil error, the count it
// returns is the length of the buffer it was given.  Returns a description of a return that may
// deliver less, or "".
func (c *Ctx) fillsBuffer(g *ssa.Function, seen map[*ssa.Function]bool) string {
	if seen[g] {
		return ""
	}
	seen[g] = true
	if len(g.Blocks) == 0 || len(g.Params) < 2 {
		return "the body of " + c.fname(g) + " is not available"
	}
	buf := ssa.Value(g.Params[len(g.Params)-1])
	for _, r := range returns(g) {
		if len(r.Results) != 2 {
			continue
		}
		type pair struct {
			n, e ssa.Value
			ctx  []cond
		}
		var pairs []pair
		pn, _ := r.Results[0].(*ssa.Phi)
		pe, _ := r.Results[1].(*ssa.Phi)
		if pn != nil && pn.Block() != r.Block() {
			pn = nil
		}
		if pe != nil && pe.Block() != r.Block() {
			pe = nil
		}
		if pn == nil && pe == nil {
			pairs = append(pairs, pair{r.Results[0], r.Results[1], domConds(r.Block())})
		} else {
			for i, pred := range r.Block().Preds {
				p := pair{r.Results[0], r.Results[1], edgeConds(pred, r.Block())}
				if pn != nil {
					p.n = pn.Edges[i]
				}
				if pe != nil {
					p.e = pe.Edges[i]
				}
				pairs = append(pairs, p)
			}
		}
		for _, p := range pairs {
			// both results of one call that itself fills the buffer: io.ReadFull on it, or a module reader
			if en, ok := p.n.(*ssa.Extract); ok {
				if ee, ok := p.e.(*ssa.Extract); ok && ee.Tuple == en.Tuple {
					if inner, ok := en.Tuple.(*ssa.Call); ok {
						if h := inner.Common().StaticCallee(); h != nil {
							args := inner.Common().Args
							if calleeName(h) == "io.ReadFull" && len(args) == 2 && origin(args[1]) == buf {
								continue
							}
							if isReadShaped(h) && c.inModule(h) && len(args) == 2 && origin(args[1]) == buf {
								if w := c.fillsBuffer(h, seen); w == "" {
									continue
								}
							}
						}
					}
				}
			}
			// the error is known to be present
			nonNil := false
			switch x := origin(p.e).(type) {
			case *ssa.MakeInterface:
				nonNil = true
			case *ssa.UnOp:
				nonNil = globalLoad(x) != nil && isEOFGlobal(x)
			}
			for _, cd := range p.ctx {
				if m, ok := asCmp(cd); ok && m.op == token.NEQ && (m.x == p.e && isNilConst(m.y) || m.y == p.e && isNilConst(m.x)) {
					nonNil = true
				}
			}
			if nonNil {
				continue
			}
			// otherwise the count must be len(p)
			full := isLenOf(p.n, buf)
			for _, cd := range p.ctx {
				m, ok := asCmp(cd)
				if !ok {
					continue
				}
				x, y, op := m.x, m.y, m.op
				if isLenOf(x, buf) {
					x, y, op = y, x, swapOp(op)
				}
				if origin(x) == origin(p.n) && isLenOf(y, buf) && (op == token.GEQ || op == token.EQL) {
					full = true
				}
			}
			if !full {
				return c.fname(g) + " can return the count " + c.valShape(p.n) + " together with a nil error at " + c.pos(r.Pos())
			}
		}
	}
	return ""
}

// fullReadRule: module code that calls a module reader's Read directly, once (not in a loop that asks
// again, not through io.ReadFull) takes what it gets for everything there is: a count below the
// buffer length then means end of data to it.  Such a reader must fill the buffer whenever it
// reports no error; a Read that hands out only what happens to be buffered makes the result depend
// on where the chunks delivered by the underlying reader end.
func (c *Ctx) fullReadRule(rule string) {
	for _, f := range c.modFuncs {
		fname := c.fname(f)
		eachInstr(f, func(ins ssa.Instruction) {
			call, ok := ins.(*ssa.Call)
			if !ok {
				return
			}
			g := call.Common().StaticCallee()
			if g != nil && calleeName(g) == "io.ReadFull" && len(call.Common().Args) == 2 {
				if mi, ok := call.Common().Args[0].(*ssa.MakeInterface); ok {
					t := mi.X.Type()
					if pt, ok := t.Underlying().(*types.Pointer); ok {
						t = pt.Elem()
					}
					if n, ok := t.(*types.Named); ok && n.Obj().Pkg() != nil && (n.Obj().Pkg().Path() == modPath || strings.HasPrefix(n.Obj().Pkg().Path(), modPath+"/")) {
						c.ok(rule, fname, "module reader read through io.ReadFull", call.Pos(), "io.ReadFull asks again until the buffer is full", "")
					}
				}
				return
			}
			if !isReadShaped(g) || !c.inModule(g) || g == f {
				return
			}
			construct := "single call of " + c.fname(g)
			for _, r := range *call.Referrers() {
				if _, ok := r.(*ssa.Return); ok {
					c.ok(rule, fname, construct, call.Pos(), "result passed on unchanged: the caller's caller decides", "")
					return
				}
			}
			if loopBlocks(call.Block())[call.Block()] {
				c.ok(rule, fname, construct, call.Pos(), "the read is issued in a loop", "")
				return
			}
			w := c.fillsBuffer(g, map[*ssa.Function]bool{})
			c.check(w == "", rule, fname, construct, call.Pos(), "the reader fills the buffer whenever it reports no error",
				"the reader is asked once and a short count is taken for the end of the data, but "+w+" that may be smaller than the buffer: how much is delivered then depends on how the underlying reader chops the input")
		})
	}
}

// ---- the interpreter core: executeOne and the functions it is split into -----------------------

// execCore is the set of module functions that lie on a static call cycle through executeOne:
// executeOne itself and every function it calls (directly or through helpers and closures) that calls
// it back.  When the body of executeOne is split — a wrapper that does the depth accounting and a
// function that does the dispatch, a helper that runs the error handler — the pieces are exactly
// these.  Operators are called through function values and are therefore never members.
type execCore struct {
	c     *Ctx
	fn    *ssa.Function // executeOne
	funcs []*ssa.Function
	in    map[*ssa.Function]bool
	sites map[*ssa.Function][]ssa.CallInstruction // static call sites of each module function
	taken map[*ssa.Function]bool                  // used as a value (callers unknown)
}

func (c *Ctx) execCoreOf(fn *ssa.Function) *execCore {
	k := &execCore{c: c, fn: fn, in: map[*ssa.Function]bool{}, sites: map[*ssa.Function][]ssa.CallInstruction{}, taken: map[*ssa.Function]bool{}}
	succ := map[*ssa.Function][]*ssa.Function{}
	pred := map[*ssa.Function][]*ssa.Function{}
	edge := func(a, b *ssa.Function) {
		succ[a] = append(succ[a], b)
		pred[b] = append(pred[b], a)
	}
	for _, f := range c.modFuncs {
		f := f
		eachInstr(f, func(ins ssa.Instruction) {
			var callee *ssa.Function
			if call, ok := ins.(ssa.CallInstruction); ok {
				if g := call.Common().StaticCallee(); g != nil && c.inModule(g) && len(g.Blocks) > 0 {
					callee = g
					k.sites[g] = append(k.sites[g], call)
					edge(f, g)
				}
			}
			for _, op := range ins.Operands(nil) {
				if *op == nil {
					continue
				}
				switch v := (*op).(type) {
				case *ssa.Function:
					if v != callee || !isCalleeOperand(ins, op) {
						k.taken[v] = true
						if c.inModule(v) {
							edge(f, v)
						}
					}
				case *ssa.MakeClosure:
					if g, ok := v.Fn.(*ssa.Function); ok {
						k.taken[g] = true
					}
				}
			}
			if mc, ok := ins.(*ssa.MakeClosure); ok {
				if g, ok := mc.Fn.(*ssa.Function); ok {
					k.taken[g] = true
					edge(f, g)
				}
			}
		})
	}
	reach := func(start *ssa.Function, next map[*ssa.Function][]*ssa.Function) map[*ssa.Function]bool {
		seen := map[*ssa.Function]bool{}
		st := append([]*ssa.Function{}, next[start]...)
		for len(st) > 0 {
			x := st[len(st)-1]
			st = st[:len(st)-1]
			if seen[x] {
				continue
			}
			seen[x] = true
			st = append(st, next[x]...)
		}
		return seen
	}
	fwd, bwd := reach(fn, succ), reach(fn, pred)
	k.in[fn] = true
	k.funcs = append(k.funcs, fn)
	for _, f := range c.modFuncs {
		if f != fn && fwd[f] && bwd[f] {
			k.in[f] = true
			k.funcs = append(k.funcs, f)
		}
	}
	return k
}

// isCalleeOperand: op is the function position of the call instruction ins.
func isCalleeOperand(ins ssa.Instruction, op *ssa.Value) bool {
	call, ok := ins.(ssa.CallInstruction)
	return ok && op == &call.Common().Value
}

// acyclicWithoutEntry: every call cycle among the members passes through executeOne.  Returns a
// member that lies on a cycle avoiding it, or nil.
func (k *execCore) cycleAvoidingEntry() *ssa.Function {
	color := map[*ssa.Function]int{}
	var bad *ssa.Function
	var dfs func(f *ssa.Function)
	dfs = func(f *ssa.Function) {
		color[f] = 1
		eachInstr(f, func(ins ssa.Instruction) {
			call, ok := ins.(ssa.CallInstruction)
			if !ok || bad != nil {
				return
			}
			g := call.Common().StaticCallee()
			if g == nil || g == k.fn || !k.in[g] {
				return
			}
			switch color[g] {
			case 1:
				bad = g
			case 0:
				dfs(g)
			}
		})
		color[f] = 2
	}
	for _, f := range k.funcs {
		if f != k.fn && color[f] == 0 && bad == nil {
			dfs(f)
		}
	}
	return bad
}

// callsMember: block b contains a (non-deferred) static call of a member of the core.
func (k *execCore) callsMember(b *ssa.BasicBlock) bool {
	for _, ins := range b.Instrs {
		if call, ok := ins.(ssa.CallInstruction); ok && k.in[call.Common().StaticCallee()] {
			if _, isDefer := ins.(*ssa.Defer); !isDefer {
				return true
			}
		}
	}
	return false
}

// enteredOnlyAfter: every invocation of h happens after a block satisfying mark was passed — in the
// frame of the caller before the call, or (recursively) before the caller itself was entered.
// executeOne is entered from anywhere, a function used as a value from unknown places: never.
func (k *execCore) enteredOnlyAfter(h *ssa.Function, mark func(*ssa.BasicBlock) bool, visiting map[*ssa.Function]bool) bool {
	if h == k.fn || k.taken[h] || len(k.sites[h]) == 0 || visiting[h] {
		return false
	}
	visiting[h] = true
	defer delete(visiting, h)
	for _, cs := range k.sites[h] {
		g := cs.Parent()
		target := cs.Block()
		q := &pathQuery{fn: g, isTarget: func(b *ssa.BasicBlock) bool { return b == target }, avoid: mark}
		if !q.search() {
			continue
		}
		if !k.enteredOnlyAfter(g, mark, visiting) {
			return false
		}
	}
	return true
}

// siteAfter: instruction site is executed only after mark was passed (see enteredOnlyAfter); inside
// the function that holds the marking instruction m, dominance by m decides.
func (k *execCore) siteAfter(site ssa.Instruction, m ssa.Instruction, mark func(*ssa.BasicBlock) bool) bool {
	if site.Parent() == m.Parent() && dominatesInstr(m, site) {
		return true
	}
	return k.enteredOnlyAfter(site.Parent(), mark, map[*ssa.Function]bool{})
}

// entryFacts: what is known about the parameters of a member when it is entered although the
// marked block (the execution-depth gate) has not been passed since executeOne was entered.
type entryFacts struct {
	bools map[ssa.Value]bool
	typs  map[ssa.Value]*typeFact
}

func (e entryFacts) key() string {
	s := &pathState{blk: nil, bools: e.bools, typs: e.typs}
	var parts []string
	for v, b := range s.bools {
		parts = append(parts, fmt.Sprintf("%s=%v", v.Name(), b))
	}
	for v, tf := range s.typs {
		p := v.Name() + ":"
		if tf.is != nil {
			p += "is " + tf.is.String()
		}
		var ex []string
		for n := range tf.not {
			ex = append(ex, n)
		}
		sort.Strings(ex)
		parts = append(parts, p+" not "+strings.Join(ex, ","))
	}
	sort.Strings(parts)
	return strings.Join(parts, ";")
}

// unmarkedEntries: the fact sets with which member h can be entered without the mark having been
// passed since the enclosing invocation of executeOne began.  executeOne itself: no facts.  Another
// member: for every call site, every way of reaching the site in the caller (entered unmarked itself)
// that avoids the mark, with what the path tells about the arguments.  An empty result means h is
// only ever entered after the mark.
func (k *execCore) unmarkedEntries(h *ssa.Function, mark func(*ssa.BasicBlock) bool, markStore ssa.Instruction, memo map[*ssa.Function][]entryFacts, visiting map[*ssa.Function]bool) []entryFacts {
	if r, ok := memo[h]; ok {
		return r
	}
	none := []entryFacts{{bools: map[ssa.Value]bool{}, typs: map[ssa.Value]*typeFact{}}}
	if h == k.fn || k.taken[h] || len(k.sites[h]) == 0 || visiting[h] {
		return none
	}
	visiting[h] = true
	defer delete(visiting, h)
	var out []entryFacts
	have := map[string]bool{}
	for _, cs := range k.sites[h] {
		g := cs.Parent()
		if !k.in[g] {
			memo[h] = none
			return none
		}
		cs := cs
		for _, e := range k.unmarkedEntries(g, mark, markStore, memo, visiting) {
			q := &pathQuery{fn: g, initBools: e.bools, initTyps: e.typs, avoid: mark}
			q.isTarget = func(b *ssa.BasicBlock) bool {
				if b != cs.Block() {
					return false
				}
				// the call follows the mark inside the marked block itself
				if markStore != nil && markStore.Block() == b && instrIndex(markStore) < instrIndex(cs) {
					return false
				}
				return true
			}
			q.each = func(s *pathState) {
				nf := entryFacts{bools: map[ssa.Value]bool{}, typs: map[ssa.Value]*typeFact{}}
				args := cs.Common().Args
				for i, p := range h.Params {
					if i >= len(args) {
						break
					}
					a := args[i]
					if b, ok := constBool(a); ok {
						nf.bools[p] = b
					} else {
						av, neg := boolKey(a)
						for kv, b := range s.bools {
							if kv == av || origin(kv) == origin(av) {
								nf.bools[p] = b != neg
							}
						}
					}
					if tf, ok := s.typs[origin(a)]; ok {
						nf.typs[p] = tf
					}
				}
				if kk := nf.key(); !have[kk] {
					have[kk] = true
					out = append(out, nf)
				}
			}
			q.search()
		}
	}
	memo[h] = out
	return out
}
