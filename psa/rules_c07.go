package main

import (
	"fmt"
	"go/ast"
	"go/token"
	"go/types"
	"regexp"
	"sort"
	"strings"

	"golang.org/x/tools/go/ssa"
)

// C07 — CMap reader.  Rule family A9 CMAPSIB.

func init() {
	register(&propCheck{
		id:    "C07",
		title: "CMap reader returns exactly the mappings written in the file",
		explanation: "Decides the guard-table and sibling-agreement clauses of C07: the CIDInit procedure set has the 17 PLRM operators; every begin* operator demands an open cmap block, one operand of type integer in [0,100] (rangecheck otherwise) and sizes its scratch buffer with it; every end* operator takes 2 (char kinds, code space) or 3 (range kinds) operands per declared entry below a base computed from the stack length, reports stackunderflow when they are missing, asserts string sources, equal lengths and low ≤ high for all four range kinds, the destination class of its kind (cid/notdef: integer; bfchar: string or name; bfrange: string or array), all before the first store into the result; copies the scratch entries into the table of its own kind (append, never the scratch slice itself), pops exactly its operands and resets the scratch buffer; " +
			"within each family (begin-char, begin-range, end-char, end-range) the operator bodies are identical after abstracting the operator name, the target table and the destination test; endcmap sorts each of the seven tables with a comparator that indexes the table being sorted, compares [i] before [j] with <, code space by length first; usecmap records the name. " +
			"It does NOT decide that the returned tables equal the file's entries as values.",
		trusted:     []string{"go/ssa dominance, source rendering by go/printer for sibling comparison"},
		assumptions: nil,
		run:         runC07,
	})
}

var cidInitOps = []string{"begincmap", "endcmap", "usecmap",
	"begincodespacerange", "endcodespacerange",
	"begincidchar", "endcidchar", "begincidrange", "endcidrange",
	"beginbfchar", "endbfchar", "beginbfrange", "endbfrange",
	"beginnotdefchar", "endnotdefchar", "beginnotdefrange", "endnotdefrange"}

type cmapKind struct {
	begin, end string
	k          int    // operands per entry
	field      string // CMapInfo field
	scratch    string // Interpreter scratch field
	dest       string // destination class
	isRange    bool
}

var cmapKinds = []cmapKind{
	{"begincodespacerange", "endcodespacerange", 2, "CodeSpaceRanges", "cmapCodeSpaceRanges", "", true},
	{"begincidchar", "endcidchar", 2, "CidChars", "cmapChars", "Integer", false},
	{"beginbfchar", "endbfchar", 2, "BfChars", "cmapChars", "String|Name", false},
	{"beginnotdefchar", "endnotdefchar", 2, "NotdefChars", "cmapChars", "Integer", false},
	{"begincidrange", "endcidrange", 3, "CidRanges", "cmapRanges", "Integer", true},
	{"beginbfrange", "endbfrange", 3, "BfRanges", "cmapRanges", "String|Array", true},
	{"beginnotdefrange", "endnotdefrange", 3, "NotdefRanges", "cmapRanges", "Integer", true},
}

func runC07(c *Ctx) {
	reg := c.registry()
	ia := c.interp()
	info := c.info("postscript")
	cmT := c.typeObj("postscript", "CMapInfo")

	// ---- registry
	var missing []string
	n := 0
	for _, op := range cidInitOps {
		if e := reg.byKey["cidInit/"+op]; e == nil || e.fn == nil {
			missing = append(missing, op)
		} else {
			n++
		}
	}
	c.check(len(missing) == 0, "CMAP-REGISTRY", "postscript.cidInit", "the 17 CIDInit operators are defined", token.NoPos, fmt.Sprintf("%d operators", n), "CIDInit lacks "+strings.Join(missing, ", "))

	lit := func(op string) *ast.FuncLit {
		e := reg.byKey["cidInit/"+op]
		if e == nil {
			return nil
		}
		var fl *ast.FuncLit
		ast.Inspect(e.expr, func(n ast.Node) bool {
			if f, ok := n.(*ast.FuncLit); ok && fl == nil {
				fl = f
			}
			return true
		})
		return fl
	}

	for _, k := range cmapKinds {
		// ---------------- begin*
		f := reg.op("cidInit", k.begin)
		fname := c.fname(f)
		// the store that sizes the scratch buffer
		var sizeStore *ssa.Store
		eachInstr(f, func(ins ssa.Instruction) {
			if st, ok := ins.(*ssa.Store); ok && isFieldAddr(st.Addr, ia.T, k.scratch) {
				sizeStore = st
			}
		})
		if sizeStore == nil {
			c.fail("CMAP-BEGIN", fname, "scratch buffer sized by the declared count", f.Pos(), k.begin+" does not set Interpreter."+k.scratch)
		} else {
			conds := domConds(sizeStore.Block())
			// operand n: the Integer on top of the stack
			isN := func(v ssa.Value) bool {
				d, ok := stackOperand(v, ia.T)
				return ok && d == 1
			}
			ub, okU := upperBoundConst(conds, isN)
			lb, okL := lowerBoundConst(conds, isN)
			c.check(okU && okL && lb == 0 && ub == 100, "CMAP-BEGIN", fname, "declared count in [0,100]", sizeStore.Pos(), fmt.Sprintf("%d <= n <= %d", lb, ub), fmt.Sprintf("%s accepts counts in [%d,%d] (bounds found: %v,%v); the CMap format allows 0..100", k.begin, lb, ub, okL, okU))
			// the size of the buffer is that operand
			sized := false
			var walk func(v ssa.Value, depth int) bool
			walk = func(v ssa.Value, depth int) bool {
				if depth > 6 {
					return false
				}
				if isN(v) {
					return true
				}
				switch x := v.(type) {
				case *ssa.MakeSlice:
					return walk(x.Len, depth+1)
				case *ssa.Slice:
					return x.High != nil && walk(x.High, depth+1)
				case *ssa.Convert:
					return walk(x.X, depth+1)
				case *ssa.ChangeType:
					return walk(x.X, depth+1)
				}
				return false
			}
			sized = walk(sizeStore.Val, 0)
			c.check(sized, "CMAP-BEGIN", fname, "scratch buffer has exactly the declared number of entries", sizeStore.Pos(), "len = n", k.begin+" does not size its scratch buffer with the declared count")
			// in-cmap test, stack guard, integer assertion with their error names
			inCmap, stackG, isInt := false, false, false
			for _, cd := range conds {
				m, ok := asCmp(cd)
				if ok && m.op == token.NEQ && isFieldLoad(m.x, ia.T, c.fld("intp.cmapMappings")) && isNilConst(m.y) {
					inCmap = c.otherEdgeErr(cd) == "undefined"
				}
				if ifi, isIf := cd.blk.Instrs[len(cd.blk.Instrs)-1].(*ssa.If); isIf {
					if kk, succ, isG := underflowGuard(ifi, func(v ssa.Value) bool { return lenOfField(v, ia.T, "Stack") }); isG && kk == 1 && (succ == 0) != cd.truth {
						stackG = c.otherEdgeErr(cd) == "stackunderflow"
					}
				}
				if ex, isEx := cd.v.(*ssa.Extract); isEx && ex.Index == 1 && cd.truth {
					if ta, isTA := ex.Tuple.(*ssa.TypeAssert); isTA && typeIsNamed(ta.AssertedType, c.typeObj("postscript", "Integer")) {
						isInt = c.otherEdgeErr(cd) == "typecheck"
					}
				}
			}
			c.check(inCmap && stackG && isInt, "CMAP-BEGIN", fname, "requires an open cmap block (undefined), one operand (stackunderflow) of type integer (typecheck)", f.Pos(), "three guards dominate the buffer set-up, each with its error name",
				fmt.Sprintf("%s: guards before the buffer is set up — open cmap block/undefined: %v, operand present/stackunderflow: %v, integer/typecheck: %v", k.begin, inCmap, stackG, isInt))
			// out-of-range → rangecheck
			rc := false
			for _, cd := range conds {
				m, ok := asCmp(cd)
				if ok && isN(m.x) {
					if c.otherEdgeErr(cd) == "rangecheck" {
						rc = true
					}
				}
			}
			c.check(rc, "CMAP-BEGIN", fname, "count out of range → rangecheck", f.Pos(), "rangecheck", k.begin+" does not report rangecheck for a count outside 0..100")
		}

		// ---------------- end*
		g := reg.op("cidInit", k.end)
		gname := c.fname(g)
		fl := lit(k.end)
		if fl == nil {
			c.fail("CMAP-END", gname, "function literal", g.Pos(), "operator body not found")
			continue
		}
		text := nodeString(c, fl.Body)
		// base = len(Stack) - k*len(scratch)
		okBase := strings.Contains(text, fmt.Sprintf("base := len(intp.Stack) - %d*len(intp.%s)", k.k, k.scratch))
		okUnder := regexp.MustCompile(`if base < 0 \{ return intp\.e\(eStackunderflow`).MatchString(text)
		c.check(okBase && okUnder, "CMAP-END", gname, fmt.Sprintf("%d operands per declared entry, below base = len(Stack) − %d·n; base < 0 → stackunderflow", k.k, k.k), fl.Pos(), "", fmt.Sprintf("%s: operand base (found: %v) or stack underflow report (found: %v) deviates: a block with fewer entries than declared must be rejected", k.end, okBase, okUnder))
		// in-cmap test
		c.check(strings.Contains(text, "if intp.cmapMappings == nil { return intp.e(eUndefined"), "CMAP-END", gname, "requires an open cmap block", fl.Pos(), "", k.end+" does not test for an open cmap block (nil dereference / missing begincmap)")
		// per-entry checks, via SSA: type assertions inside the loop
		var asserted []string
		eachInstr(g, func(ins ssa.Instruction) {
			if ta, ok := ins.(*ssa.TypeAssert); ok && ta.CommaOk && inCycle(ta.Block()) {
				if nt, ok := ta.AssertedType.(*types.Named); ok {
					asserted = append(asserted, nt.Obj().Name())
				}
			}
		})
		sort.Strings(asserted)
		wantAssert := []string{"String"}
		if k.isRange {
			wantAssert = []string{"String", "String"}
		}
		switch k.dest {
		case "Integer":
			wantAssert = append(wantAssert, "Integer")
		}
		sort.Strings(wantAssert)
		destOK := true
		destWhy := ""
		switch k.dest {
		case "String|Name":
			destOK = strings.Contains(text, "if !isStringOrName(val) { return intp.e(eTypecheck")
			destWhy = "string or name"
		case "String|Array":
			destOK = strings.Contains(text, "if !isStringOrArray(val) { return intp.e(eTypecheck")
			destWhy = "string or array"
		case "Integer":
			destOK = regexp.MustCompile(`if _, ok := val\.\(Integer\); !ok \{ return intp\.e\(eTypecheck`).MatchString(text)
			destWhy = "integer"
		}
		c.check(fmt.Sprint(asserted) == fmt.Sprint(wantAssert), "CMAP-END", gname, "source codes are strings (per entry)", fl.Pos(), fmt.Sprint(asserted), fmt.Sprintf("%s asserts %v per entry, expected %v", k.end, asserted, wantAssert))
		if k.dest != "" {
			c.check(destOK, "CMAP-END", gname, "destination must be "+destWhy+" (typecheck)", fl.Pos(), "", k.end+" does not reject a destination that is not "+destWhy)
		}
		if k.isRange {
			okRange := strings.Contains(text, "if len(lo) != len(hi) || bytes.Compare(lo, hi) > 0 { return intp.e(eRangecheck")
			c.check(okRange, "CMAP-END", gname, "bounds of equal length and low ≤ high (rangecheck)", fl.Pos(), "", k.end+" does not reject bounds of unequal length or a reversed range with rangecheck")
		}
		// stores into the result only after the loop; append copies into the table of this kind; operands popped; scratch reset
		var resStores []*ssa.Store
		eachInstr(g, func(ins ssa.Instruction) {
			if st, ok := ins.(*ssa.Store); ok {
				if _, fld, ok := fieldAddrOf(st.Addr); ok {
					if base, _, _ := fieldAddrOf(st.Addr); pointsTo(base.Type(), cmT) {
						_ = fld
						resStores = append(resStores, st)
					}
				}
			}
		})
		okStore := len(resStores) == 1
		whyStore := fmt.Sprintf("%d stores into the CMap tables", len(resStores))
		if okStore {
			st := resStores[0]
			_, fld, _ := fieldAddrOf(st.Addr)
			if fld.Name() != k.field {
				okStore, whyStore = false, "stores into "+fld.Name()+", expected "+k.field
			}
			if inCycle(st.Block()) {
				okStore, whyStore = false, "the result table is written inside the entry loop, before all entries are validated"
			}
			call, isCall := st.Val.(*ssa.Call)
			if !isCall {
				okStore, whyStore = false, "the table is assigned a slice directly instead of appending copies of the entries: it then shares storage with the scratch buffer, which later blocks overwrite"
			} else if b, ok := call.Common().Value.(*ssa.Builtin); !ok || b.Name() != "append" || !isFieldLoad(call.Common().Args[0], cmT, k.field) || !isFieldLoad(call.Common().Args[1], ia.T, k.scratch) {
				okStore, whyStore = false, "the table is not extended by append(table, scratch...)"
			}
		}
		c.check(okStore, "CMAP-END", gname, "validated entries are appended (copied) to "+k.field+" after the loop", fl.Pos(), "append(cmapMappings."+k.field+", scratch...)", k.end+": "+whyStore)
		okPop := strings.Contains(text, "intp.Stack = intp.Stack[:base]")
		okReset := strings.Contains(text, "intp."+k.scratch+" = intp."+k.scratch+"[:0]") || strings.Contains(text, "intp."+k.scratch+" = nil")
		c.check(okPop && okReset, "CMAP-END", gname, "operands popped, scratch buffer reset", fl.Pos(), "Stack = Stack[:base]; scratch = scratch[:0]", fmt.Sprintf("%s: pops its operands: %v, resets the scratch buffer: %v", k.end, okPop, okReset))
	}

	// ---------------- sibling agreement
	families := map[string][]cmapKind{}
	for _, k := range cmapKinds {
		fam := "char"
		if k.isRange {
			fam = "range"
		}
		if k.begin == "begincodespacerange" {
			continue
		}
		families[fam] = append(families[fam], k)
	}
	norm := func(op string, k cmapKind) string {
		fl := lit(op)
		if fl == nil {
			return ""
		}
		t := nodeString(c, fl.Body)
		t = regexp.MustCompile(`"[^"]*"`).ReplaceAllString(t, `""`)
		t = strings.ReplaceAll(t, k.field, "TABLE")
		t = regexp.MustCompile(`if _, ok := val\.\(Integer\); !ok`).ReplaceAllString(t, "if !DEST(val)")
		t = regexp.MustCompile(`if !isStringOr(Name|Array)\(val\)`).ReplaceAllString(t, "if !DEST(val)")
		return t
	}
	for _, fam := range []string{"char", "range"} {
		ks := families[fam]
		for _, side := range []string{"begin", "end"} {
			ref := ""
			refOp := ""
			for _, k := range ks {
				op := k.begin
				if side == "end" {
					op = k.end
				}
				t := norm(op, k)
				if ref == "" {
					ref, refOp = t, op
					continue
				}
				c.check(t == ref, "CMAP-SIBLINGS", "postscript.cidInit$"+op, "body identical to "+refOp+" up to operator name, target table and destination test", token.NoPos, "normalised source text equal",
					op+" deviates from its sibling "+refOp+": "+firstDiff(ref, t))
			}
		}
	}

	// ---------------- endcmap sorts
	c.endcmapSorts(reg, info, lit("endcmap"))

	// ---------------- usecmap
	{
		f := reg.op("cidInit", "usecmap")
		ok := false
		eachInstr(f, func(ins ssa.Instruction) {
			if st, ok2 := ins.(*ssa.Store); ok2 && isFieldAddr(st.Addr, cmT, "UseCMap") {
				if d, isOp := stackOperand(st.Val, ia.T); isOp && d == 1 {
					ok = true
				}
			}
		})
		c.check(ok, "CMAP-USECMAP", c.fname(f), "the referenced CMap name is recorded", f.Pos(), "UseCMap = operand", "usecmap does not record its name operand in UseCMap")
	}
}

// otherEdgeErr: the PostScript error name returned on the edge of cd's If
// that does not lead to the dominated block.
func (c *Ctx) otherEdgeErr(cd cond) string {
	other := cd.blk.Succs[1]
	if !cd.truth {
		other = cd.blk.Succs[0]
	}
	// follow a short chain of blocks to a return
	for i := 0; i < 3 && other != nil; i++ {
		if n := c.blockReturnsErr(other); n != "" {
			return n
		}
		if len(other.Succs) == 0 {
			break
		}
		// `a || b` chains: the other edge may test the second disjunct first
		if ifi, ok := other.Instrs[len(other.Instrs)-1].(*ssa.If); ok {
			_ = ifi
			if n := c.blockReturnsErr(other.Succs[0]); n != "" {
				return n
			}
			other = other.Succs[1]
			continue
		}
		other = other.Succs[0]
	}
	return ""
}

func firstDiff(a, b string) string {
	i := 0
	for i < len(a) && i < len(b) && a[i] == b[i] {
		i++
	}
	lo := i - 40
	if lo < 0 {
		lo = 0
	}
	ea, eb := i+60, i+60
	if ea > len(a) {
		ea = len(a)
	}
	if eb > len(b) {
		eb = len(b)
	}
	return fmt.Sprintf("…%s… vs …%s…", a[lo:ea], b[lo:eb])
}

func (c *Ctx) endcmapSorts(reg *registry, info *types.Info, fl *ast.FuncLit) {
	f := reg.op("cidInit", "endcmap")
	fname := c.fname(f)
	if fl == nil {
		c.fail("CMAP-SORT", fname, "body", f.Pos(), "endcmap body not found")
		return
	}
	sorted := map[string]bool{}
	ast.Inspect(fl.Body, func(n ast.Node) bool {
		call, ok := n.(*ast.CallExpr)
		if !ok || len(call.Args) != 2 {
			return true
		}
		if types.ExprString(call.Fun) != "sort.Slice" && types.ExprString(call.Fun) != "sort.SliceStable" {
			return true
		}
		sel, ok := call.Args[0].(*ast.SelectorExpr)
		if !ok {
			return true
		}
		field := sel.Sel.Name
		table := types.ExprString(call.Args[0])
		cmp, ok := call.Args[1].(*ast.FuncLit)
		if !ok || len(cmp.Type.Params.List) == 0 {
			c.fail("CMAP-SORT", fname, field+": comparator", call.Pos(), "comparator is not a function literal")
			return true
		}
		var pi, pj string
		names := cmp.Type.Params.List[0].Names
		if len(names) == 2 {
			pi, pj = names[0].Name, names[1].Name
		}
		body := nodeString(c, cmp.Body)
		key := "Src"
		if strings.Contains(field, "Range") {
			key = "Low"
		}
		ei := fmt.Sprintf("%s[%s].%s", table, pi, key)
		ej := fmt.Sprintf("%s[%s].%s", table, pj, key)
		want := fmt.Sprintf("{ return bytes.Compare(%s, %s) < 0 }", ei, ej)
		if field == "CodeSpaceRanges" {
			want = fmt.Sprintf("{ if len(%s) != len(%s) { return len(%s) < len(%s) } return bytes.Compare(%s, %s) < 0 }", ei, ej, ei, ej, ei, ej)
		}
		okCmp := body == want
		c.check(okCmp, "CMAP-SORT", fname, field+": sorted by source code ([i] before [j], <)"+map[bool]string{true: ", length first", false: ""}[field == "CodeSpaceRanges"], call.Pos(), "comparator indexes the table being sorted",
			"the comparator for "+field+" is `"+body+"`, expected `"+want+"`")
		sorted[field] = true
		return true
	})
	var missing []string
	for _, k := range cmapKinds {
		if !sorted[k.field] {
			missing = append(missing, k.field)
		}
	}
	c.check(len(missing) == 0, "CMAP-SORT", fname, "all seven tables are sorted", fl.Pos(), "7 sort calls", "endcmap does not sort "+strings.Join(missing, ", "))
	// CodeMap stored into the current dictionary; cmapMappings cleared
	text := nodeString(c, fl.Body)
	c.check(strings.Contains(text, `dict["CodeMap"] = intp.cmapMappings`) && strings.Contains(text, "dict := intp.DictStack[len(intp.DictStack)-1]") && strings.Contains(text, "intp.cmapMappings = nil"), "CMAP-SORT", fname, "the finished tables are stored under CodeMap in the current dictionary and the block is closed", fl.Pos(), "", "endcmap does not store the tables under CodeMap in the current dictionary (or leaves the cmap block open)")
}
