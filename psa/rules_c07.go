package main

import (
	"fmt"
	"go/ast"
	"go/token"
	"go/types"
	"strings"

	"golang.org/x/tools/go/ssa"
)

// C07 — CMap reader.  Rule family A9 CMAPSIB.

func init() {
	register(&propCheck{
		id:    "C07",
		title: "CMap reader returns exactly the mappings written in the file",
		explanation: "Decides the guard-table and sibling-agreement clauses of C07: the CIDInit procedure set has the 17 PLRM operators; every begin* operator demands an open cmap block, one operand of type integer in [0,100] (rangecheck otherwise) and sizes its scratch buffer with it; every end* operator takes 2 (char kinds, code space) or 3 (range kinds) operands per declared entry below a base computed from the stack length, reports stackunderflow when they are missing, asserts string sources, equal lengths and low ≤ high for all four range kinds, the destination class of its kind (cid/notdef: integer; bfchar: string or name; bfrange: string or array), all before the first store into the result; copies the scratch entries into the table of its own kind (append, never the scratch slice itself), pops exactly its operands and resets the scratch buffer; " +
			"within each family (begin-char, begin-range, end-char, end-range) the operator bodies are identical after abstracting the operator name, the target table and the destination test; endcmap sorts each of the seven tables with a comparator that indexes the table being sorted, compares [i] before [j] with <, code space by length first; usecmap records the name. " +
			"It does NOT decide that the returned tables equal the file's entries as values.",
		trusted:     []string{"go/ssa dominance, source rendering by go/printer for sibling comparison"},
		assumptions: nil,
		run:         runC07,
	})
}

var cidInitOps = []string{"begincmap", "endcmap", "usecmap",
	"begincodespacerange", "endcodespacerange",
	"begincidchar", "endcidchar", "begincidrange", "endcidrange",
	"beginbfchar", "endbfchar", "beginbfrange", "endbfrange",
	"beginnotdefchar", "endnotdefchar", "beginnotdefrange", "endnotdefrange"}

type cmapKind struct {
	begin, end string
	k          int    // operands per entry
	field      string // CMapInfo field
	scratch    string // Interpreter scratch field
	dest       string // destination class
	isRange    bool
}

var cmapKinds = []cmapKind{
	{"begincodespacerange", "endcodespacerange", 2, "CodeSpaceRanges", "cmapCodeSpaceRanges", "", true},
	{"begincidchar", "endcidchar", 2, "CidChars", "cmapChars", "Integer", false},
	{"beginbfchar", "endbfchar", 2, "BfChars", "cmapChars", "String|Name", false},
	{"beginnotdefchar", "endnotdefchar", 2, "NotdefChars", "cmapChars", "Integer", false},
	{"begincidrange", "endcidrange", 3, "CidRanges", "cmapRanges", "Integer", true},
	{"beginbfrange", "endbfrange", 3, "BfRanges", "cmapRanges", "String|Array", true},
	{"beginnotdefrange", "endnotdefrange", 3, "NotdefRanges", "cmapRanges", "Integer", true},
}

func runC07(c *Ctx) {
	reg := c.registry()

	// ---- registry
	var missing []string
	n := 0
	for _, op := range cidInitOps {
		if e := reg.byKey["cidInit/"+op]; e == nil || e.fn == nil {
			missing = append(missing, op)
		} else {
			n++
		}
	}
	c.check(len(missing) == 0, "CMAP-REGISTRY", "postscript.cidInit", "the 17 CIDInit operators are defined", token.NoPos, fmt.Sprintf("%d operators", n), "CIDInit lacks "+strings.Join(missing, ", "))
	c.check(reg.open["cidInit"] == 0, "CMAP-REGISTRY", "postscript.cidInit", "the contents of the table are determined where it is built", token.NoPos, "every update has a constant key (or runs over a list of constant keys) and is made unconditionally",
		fmt.Sprintf("%d update(s) of the CIDInit table have a key that is not known statically or are made conditionally: which operators a CMap file finds cannot be decided", reg.open["cidInit"]))

	c.cmapTables()
	c.cmapChoiceRule()
}

// otherEdgeErr: the PostScript error name returned on the edge of cd's If
// that does not lead to the dominated block.
func (c *Ctx) otherEdgeErr(cd cond) string {
	other := cd.blk.Succs[1]
	if !cd.truth {
		other = cd.blk.Succs[0]
	}
	// follow a short chain of blocks to a return
	for i := 0; i < 3 && other != nil; i++ {
		if n := c.blockReturnsErr(other); n != "" {
			return n
		}
		if len(other.Succs) == 0 {
			break
		}
		// `a || b` chains: the other edge may test the second disjunct first
		if ifi, ok := other.Instrs[len(other.Instrs)-1].(*ssa.If); ok {
			_ = ifi
			if n := c.blockReturnsErr(other.Succs[0]); n != "" {
				return n
			}
			other = other.Succs[1]
			continue
		}
		other = other.Succs[0]
	}
	return ""
}

func firstDiff(a, b string) string {
	i := 0
	for i < len(a) && i < len(b) && a[i] == b[i] {
		i++
	}
	lo := i - 40
	if lo < 0 {
		lo = 0
	}
	ea, eb := i+60, i+60
	if ea > len(a) {
		ea = len(a)
	}
	if eb > len(b) {
		eb = len(b)
	}
	return fmt.Sprintf("…%s… vs …%s…", a[lo:ea], b[lo:eb])
}

func (c *Ctx) endcmapSorts(reg *registry, info *types.Info, fl *ast.FuncLit) {
	f := reg.op("cidInit", "endcmap")
	fname := c.fname(f)
	if fl == nil {
		c.fail("CMAP-SORT", fname, "body", f.Pos(), "endcmap body not found")
		return
	}
	sorted := map[string]bool{}
	ast.Inspect(fl.Body, func(n ast.Node) bool {
		call, ok := n.(*ast.CallExpr)
		if !ok || len(call.Args) != 2 {
			return true
		}
		if types.ExprString(call.Fun) != "sort.Slice" && types.ExprString(call.Fun) != "sort.SliceStable" {
			return true
		}
		sel, ok := call.Args[0].(*ast.SelectorExpr)
		if !ok {
			return true
		}
		field := sel.Sel.Name
		table := types.ExprString(call.Args[0])
		cmp, ok := call.Args[1].(*ast.FuncLit)
		if !ok || len(cmp.Type.Params.List) == 0 {
			c.fail("CMAP-SORT", fname, field+": comparator", call.Pos(), "comparator is not a function literal")
			return true
		}
		var pi, pj string
		names := cmp.Type.Params.List[0].Names
		if len(names) == 2 {
			pi, pj = names[0].Name, names[1].Name
		}
		body := nodeString(c, cmp.Body)
		key := "Src"
		if strings.Contains(field, "Range") {
			key = "Low"
		}
		ei := fmt.Sprintf("%s[%s].%s", table, pi, key)
		ej := fmt.Sprintf("%s[%s].%s", table, pj, key)
		want := fmt.Sprintf("{ return bytes.Compare(%s, %s) < 0 }", ei, ej)
		if field == "CodeSpaceRanges" {
			want = fmt.Sprintf("{ if len(%s) != len(%s) { return len(%s) < len(%s) } return bytes.Compare(%s, %s) < 0 }", ei, ej, ei, ej, ei, ej)
		}
		okCmp := body == want
		c.check(okCmp, "CMAP-SORT", fname, field+": sorted by source code ([i] before [j], <)"+map[bool]string{true: ", length first", false: ""}[field == "CodeSpaceRanges"], call.Pos(), "comparator indexes the table being sorted",
			"the comparator for "+field+" is `"+body+"`, expected `"+want+"`")
		sorted[field] = true
		return true
	})
	var missing []string
	for _, k := range cmapKinds {
		if !sorted[k.field] {
			missing = append(missing, k.field)
		}
	}
	c.check(len(missing) == 0, "CMAP-SORT", fname, "all seven tables are sorted", fl.Pos(), "7 sort calls", "endcmap does not sort "+strings.Join(missing, ", "))
	// CodeMap stored into the current dictionary; cmapMappings cleared
	text := nodeString(c, fl.Body)
	c.check(strings.Contains(text, `dict["CodeMap"] = intp.cmapMappings`) && strings.Contains(text, "dict := intp.DictStack[len(intp.DictStack)-1]") && strings.Contains(text, "intp.cmapMappings = nil"), "CMAP-SORT", fname, "the finished tables are stored under CodeMap in the current dictionary and the block is closed", fl.Pos(), "", "endcmap does not store the tables under CodeMap in the current dictionary (or leaves the cmap block open)")
}
