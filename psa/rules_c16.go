package main

import (
	"bufio"
	"fmt"
	"go/ast"
	"go/token"
	"go/types"
	"os"
	"path/filepath"
	"regexp"
	"sort"
	"strconv"
	"strings"

	"golang.org/x/tools/go/ssa"
)

// C16 — glyph names ↔ Unicode.  Rule family A14 NAMETABLES.

func init() {
	register(&propCheck{
		id:    "C16",
		title: "Glyph names and Unicode text map to each other as the AGL specifies",
		explanation: "Decides the parser-shape-versus-data, table and grammar clauses of C16: the embedded tables (glyphlist.txt, zapfdingbats.txt, aglfn.txt, read by the checker from /repo's working tree) are parsed by the checker and compared with what the repository's parsers can take — if a parser hands a whole field to one ParseInt, every data line must carry exactly one number there; discarded errors are admitted only where the data proves they cannot occur; " +
			"cross-checks: every AGLFN (code, name) agrees with the glyph list after the two swaps the code applies, AGLFN codes and names are unique, no table name has the uXXXX/uniXXXX form the fallback produces, the compatibility table has no two keys with equal expansions and no one-element expansion (different characters never share a name), the fallback format yields 4–6 upper-case hexadecimal digits; " +
			"grammar: IsValid accepts lengths 1..31 over [A-Za-z0-9._] not starting with a digit or period, plus .notdef; the uni form requires length ≡ 3 (mod 4), groups of four upper-case hexadecimal digits outside D800–DFFF; the u form 4–6 upper-case hexadecimal digits below 110000 outside the surrogates (all evaluated from the source over boundary values and all bytes); the suffix is cut at the first period, components split at underscores, scratch state is per component, the dingbats table is consulted only when asked for. " +
			"It does NOT decide the exhaustive per-code-point statements themselves: they follow from grammar + tables only together with the control flow, which is read but not executed.",
		trusted:     []string{"the embedded data files as found in /repo's working tree", "byte/boundary-value evaluation of comparison-only predicates"},
		assumptions: nil,
		run:         runC16,
	})
}

type aglTables struct {
	glyphlist map[string][]rune
	zapf      map[string][]rune
	aglfn     map[rune]string
	aglfnRaw  [][2]string
	problems  []string
	maxCodes  map[string]int // per file: max number of code points in one entry
	lines     map[string]int
}

var hexUpper = regexp.MustCompile(`^[0-9A-F]{4,6}$`)

func (c *Ctx) readAGL() *aglTables {
	dir := filepath.Join(repoDir, "type1", "names", "agl-aglfn")
	t := &aglTables{glyphlist: map[string][]rune{}, zapf: map[string][]rune{}, aglfn: map[rune]string{}, maxCodes: map[string]int{}, lines: map[string]int{}}
	readList := func(file string, into map[string][]rune) {
		fd, err := os.Open(filepath.Join(dir, file))
		if err != nil {
			t.problems = append(t.problems, file+": "+err.Error())
			return
		}
		defer fd.Close()
		sc := bufio.NewScanner(fd)
		ln := 0
		for sc.Scan() {
			ln++
			line := sc.Text()
			if len(line) == 0 || line[0] == '#' {
				continue
			}
			t.lines[file]++
			parts := strings.Split(line, ";")
			if len(parts) != 2 || parts[0] == "" {
				t.problems = append(t.problems, fmt.Sprintf("%s:%d: not `name;codes`", file, ln))
				continue
			}
			var rr []rune
			fields := strings.Fields(parts[1])
			if len(fields) == 0 {
				t.problems = append(t.problems, fmt.Sprintf("%s:%d: no code", file, ln))
			}
			for _, f := range fields {
				if !hexUpper.MatchString(f) {
					t.problems = append(t.problems, fmt.Sprintf("%s:%d: code %q is not 4–6 upper-case hex digits", file, ln, f))
					continue
				}
				v, _ := strconv.ParseInt(f, 16, 32)
				if v >= 0xD800 && v < 0xE000 || v >= 0x110000 {
					t.problems = append(t.problems, fmt.Sprintf("%s:%d: code %s is not a Unicode scalar value", file, ln, f))
				}
				rr = append(rr, rune(v))
			}
			if len(fields) > t.maxCodes[file] {
				t.maxCodes[file] = len(fields)
			}
			if _, dup := into[parts[0]]; dup {
				t.problems = append(t.problems, fmt.Sprintf("%s:%d: duplicate name %s", file, ln, parts[0]))
			}
			into[parts[0]] = rr
		}
	}
	readList("glyphlist.txt", t.glyphlist)
	readList("zapfdingbats.txt", t.zapf)
	// aglfn
	fd, err := os.Open(filepath.Join(dir, "aglfn.txt"))
	if err != nil {
		t.problems = append(t.problems, "aglfn.txt: "+err.Error())
		return t
	}
	defer fd.Close()
	sc := bufio.NewScanner(fd)
	ln := 0
	names := map[string]bool{}
	for sc.Scan() {
		ln++
		line := sc.Text()
		if len(line) == 0 || line[0] == '#' {
			continue
		}
		t.lines["aglfn.txt"]++
		parts := strings.SplitN(line, ";", 3)
		if len(parts) < 3 || !hexUpper.MatchString(parts[0]) || parts[1] == "" {
			t.problems = append(t.problems, fmt.Sprintf("aglfn.txt:%d: not `code;name;description`", ln))
			continue
		}
		v, _ := strconv.ParseInt(parts[0], 16, 32)
		if _, dup := t.aglfn[rune(v)]; dup {
			t.problems = append(t.problems, fmt.Sprintf("aglfn.txt:%d: duplicate code %s", ln, parts[0]))
		}
		if names[parts[1]] {
			t.problems = append(t.problems, fmt.Sprintf("aglfn.txt:%d: duplicate name %s", ln, parts[1]))
		}
		names[parts[1]] = true
		t.aglfn[rune(v)] = parts[1]
		t.aglfnRaw = append(t.aglfnRaw, [2]string{parts[0], parts[1]})
	}
	return t
}

func runC16(c *Ctx) {
	info := c.info("names")
	tab := c.readAGL()
	c.rep.Extra["data_lines"] = tab.lines
	c.check(len(tab.problems) == 0 && tab.lines["glyphlist.txt"] > 4000 && tab.lines["zapfdingbats.txt"] > 150 && tab.lines["aglfn.txt"] > 500, "NAMES-DATA", "agl-aglfn/*.txt", "embedded tables are well-formed (name;codes / code;name;description, upper-case hex scalar values, no duplicates)", token.NoPos,
		fmt.Sprintf("%d + %d + %d data lines", tab.lines["glyphlist.txt"], tab.lines["zapfdingbats.txt"], tab.lines["aglfn.txt"]), "embedded data: "+joinMax(tab.problems, 5))

	// ---------- the parsers of the embedded tables against the tables themselves
	c.namesParserRule(tab)

	// ---------- table cross-checks
	{
		var bad []string
		for code, name := range tab.aglfn {
			rr, ok := tab.glyphlist[name]
			// apply the swaps the code applies
			if name == "Tcommaaccent" && len(rr) == 1 && rr[0] == 0x0162 {
				rr = []rune{0x021A}
			}
			if name == "tcommaaccent" && len(rr) == 1 && rr[0] == 0x0163 {
				rr = []rune{0x021B}
			}
			if !ok || len(rr) != 1 || rr[0] != code {
				bad = append(bad, fmt.Sprintf("AGLFN %04X;%s but the glyph list maps %s to %U", code, name, name, rr))
			}
		}
		sort.Strings(bad)
		c.check(len(bad) == 0, "NAMES-TABLES", "aglfn.txt × glyphlist.txt", "every AGLFN name maps back to its code through the glyph list", token.NoPos, fmt.Sprintf("%d entries", len(tab.aglfn)), joinMax(bad, 4))
		uform := regexp.MustCompile(`^(u[0-9A-F]{4,6}|uni([0-9A-F]{4})+)$`)
		var clash []string
		for _, name := range tab.aglfn {
			if uform.MatchString(name) {
				clash = append(clash, name)
			}
		}
		for name := range tab.glyphlist {
			if uform.MatchString(name) {
				clash = append(clash, name)
			}
		}
		sort.Strings(clash)
		c.check(len(clash) == 0, "NAMES-TABLES", "tables", "no table name has the uXXXX / uniXXXX form", token.NoPos, "", "table names "+joinMax(clash, 4)+" collide with the algorithmic forms")
	}
	// compat literal
	{
		p := c.pkg("names")
		var lit *ast.CompositeLit
		for _, f := range p.Syntax {
			ast.Inspect(f, func(n ast.Node) bool {
				if vs, ok := n.(*ast.ValueSpec); ok && len(vs.Names) == 1 && vs.Names[0].Name == c.curVal("names", "compat") && len(vs.Values) == 1 {
					lit, _ = vs.Values[0].(*ast.CompositeLit)
				}
				return true
			})
		}
		if lit == nil {
			c.fail("NAMES-TABLES", "names.compat", "compatibility table", token.NoPos, "compat literal not found")
		} else {
			seen := map[string]string{}
			var bad []string
			n := 0
			for _, el := range lit.Elts {
				kv, ok := el.(*ast.KeyValueExpr)
				if !ok {
					continue
				}
				k, _ := constIntOf(info, kv.Key)
				var vals []string
				if vl, ok := kv.Value.(*ast.CompositeLit); ok {
					for _, e := range vl.Elts {
						v, _ := constIntOf(info, e)
						vals = append(vals, fmt.Sprintf("%04X", v))
					}
				}
				n++
				key := strings.Join(vals, "_")
				if len(vals) < 2 {
					bad = append(bad, fmt.Sprintf("U+%04X expands to a single character %s (shares its name)", k, key))
				}
				if prev, dup := seen[key]; dup {
					bad = append(bad, fmt.Sprintf("U+%04X and %s have the same expansion %s (same glyph name)", k, prev, key))
				}
				seen[key] = fmt.Sprintf("U+%04X", k)
			}
			c.check(len(bad) == 0 && n > 100, "NAMES-TABLES", "names.compat", "compatibility expansions are injective and never a single character", lit.Pos(), fmt.Sprintf("%d entries", n), joinMax(bad, 4))
		}
		// fallback format, listed names, expansions
		c.fromUnicodeRule()
	}

	c.isValidGrammarSSA()
	c.toUnicodeGrammarSSA()
}

// intSet evaluates a boolean expression over one integer variable for the given values.
func intSet(info *types.Info, e ast.Expr, obj types.Object, vals []int64) (map[int64]bool, error) {
	out := map[int64]bool{}
	for _, v := range vals {
		env := &aenv{info: info, vars: map[types.Object]aval{obj: {i: v}}}
		r, ok := env.tryEval(e)
		if !ok {
			return nil, evalErr{"not evaluable"}
		}
		out[v] = r.b
	}
	return out, nil
}

func singleIntVar(info *types.Info, e ast.Expr) types.Object {
	var v types.Object
	n := 0
	ast.Inspect(e, func(x ast.Node) bool {
		if id, ok := x.(*ast.Ident); ok {
			if o, ok := info.ObjectOf(id).(*types.Var); ok {
				if v != o {
					v = o
					n++
				}
			}
		}
		return true
	})
	if n != 1 {
		return nil
	}
	if b, ok := v.Type().Underlying().(*types.Basic); !ok || b.Info()&types.IsInteger == 0 {
		return nil
	}
	return v
}

func (c *Ctx) isValidGrammar(info *types.Info) {
	fd := c.funcDecl("names", "", "IsValid")
	fname := "names.IsValid"
	var lenOK, firstOK, classOK, notdefOK bool
	var lenWhy, firstWhy, classWhy string
	ast.Inspect(fd.Body, func(n ast.Node) bool {
		ifs, ok := n.(*ast.IfStmt)
		if !ok {
			return true
		}
		s := types.ExprString(ifs.Cond)
		switch {
		case strings.Contains(s, `== ".notdef"`):
			if r, ok := ifs.Body.List[0].(*ast.ReturnStmt); ok && types.ExprString(r.Results[0]) == "true" {
				notdefOK = true
			}
		case strings.Contains(s, "len("):
			// evaluate with len(s) = L
			bad := ""
			for L := int64(0); L <= 40; L++ {
				env := &aenv{info: info, vars: map[types.Object]aval{}}
				env.hook = func(e ast.Expr) (aval, bool) {
					if call, ok := e.(*ast.CallExpr); ok {
						if id, ok := call.Fun.(*ast.Ident); ok && id.Name == "len" {
							return aval{i: L}, true
						}
					}
					return aval{}, false
				}
				v, ok := env.tryEval(ifs.Cond)
				if !ok {
					bad = "length test not evaluable"
					break
				}
				if v.b != (L < 1 || L > 31) {
					bad = fmt.Sprintf("length %d is %s", L, map[bool]string{true: "rejected", false: "accepted"}[v.b])
					break
				}
			}
			lenOK, lenWhy = bad == "", bad
		default:
			if v := singleIntVar(info, ifs.Cond); v != nil {
				vals := make([]int64, 0, 300)
				for b := int64(0); b < 256; b++ {
					vals = append(vals, b)
				}
				vals = append(vals, 256, 0x2028, 0x10FFFF)
				set, err := intSet(info, ifs.Cond, v, vals)
				if err != nil {
					return true
				}
				_, inLoop := enclosingRange(fd.Body, ifs)
				if inLoop {
					bad := ""
					for _, b := range vals {
						allowed := b >= 'A' && b <= 'Z' || b >= 'a' && b <= 'z' || b >= '0' && b <= '9' || b == '.' || b == '_'
						if set[b] == allowed {
							bad = fmt.Sprintf("character %d is %s", b, map[bool]string{true: "rejected", false: "accepted"}[set[b]])
							break
						}
					}
					classOK, classWhy = bad == "", bad
				} else {
					bad := ""
					for _, b := range vals {
						reject := b >= '0' && b <= '9' || b == '.'
						if set[b] != reject {
							bad = fmt.Sprintf("first character %d is %s", b, map[bool]string{true: "rejected", false: "accepted"}[set[b]])
							break
						}
					}
					firstOK, firstWhy = bad == "", bad
				}
			}
		}
		return true
	})
	c.check(lenOK, "NAMES-VALID", fname, "length 1..31", fd.Pos(), "len 0..40 evaluated", "IsValid length rule: "+lenWhy)
	c.check(firstOK, "NAMES-VALID", fname, "must not start with a digit or a period", fd.Pos(), "259 values evaluated", "IsValid first-character rule: "+firstWhy)
	c.check(classOK, "NAMES-VALID", fname, "characters from [A-Za-z0-9._] only", fd.Pos(), "259 values evaluated", "IsValid character class: "+classWhy)
	c.check(notdefOK, "NAMES-VALID", fname, ".notdef is valid", fd.Pos(), "", "IsValid no longer accepts .notdef")
}

func enclosingRange(root ast.Node, target ast.Node) (*ast.RangeStmt, bool) {
	var res *ast.RangeStmt
	ast.Inspect(root, func(n ast.Node) bool {
		if rs, ok := n.(*ast.RangeStmt); ok && rs.Pos() <= target.Pos() && target.End() <= rs.End() {
			res = rs
		}
		return true
	})
	return res, res != nil
}

func (c *Ctx) toUnicodeGrammar(info *types.Info) {
	fd := c.funcDecl("names", "", "ToUnicode")
	fname := "names.ToUnicode"
	txt := nodeString(c, fd.Body)
	// suffix and components
	okSuffix := false
	okSplit := false
	ast.Inspect(fd.Body, func(n ast.Node) bool {
		if call, ok := n.(*ast.CallExpr); ok {
			switch types.ExprString(call.Fun) {
			case "strings.IndexByte":
				if k, ok := constIntOf(info, call.Args[1]); ok && k == '.' {
					okSuffix = true
				}
			case "strings.Split":
				if s, ok := constStrOf(info, call.Args[1]); ok && s == "_" {
					okSplit = true
				}
			}
		}
		return true
	})
	okCut := regexp.MustCompile(`if \w+ >= 0 \{ name = name\[:\w+\] \}`).MatchString(txt)
	c.check(okSuffix && okCut && okSplit, "NAMES-AGL", fname, "everything from the first period on is dropped; components are split at underscores", fd.Pos(), "IndexByte(name,'.'); name[:idx]; Split(name,\"_\")", fmt.Sprintf("AGL step 1/2: first-period search %v, cut %v, underscore split %v", okSuffix, okCut, okSplit))

	// hex digit classifiers: every tagless switch over a rune variable inside ToUnicode
	nCls := 0
	ast.Inspect(fd.Body, func(n ast.Node) bool {
		sw, ok := n.(*ast.SwitchStmt)
		if !ok || sw.Tag != nil {
			return true
		}
		var v types.Object
		for _, cc := range sw.Body.List {
			for _, e := range cc.(*ast.CaseClause).List {
				if vv := singleIntVar(info, e); vv != nil {
					v = vv
				}
			}
		}
		if v == nil {
			return true
		}
		nCls++
		// for each character: digit value or reject
		bad := ""
		var valVar types.Object
		ast.Inspect(sw, func(m ast.Node) bool {
			if as, ok := m.(*ast.AssignStmt); ok && len(as.Lhs) == 1 && valVar == nil {
				if id, ok := as.Lhs[0].(*ast.Ident); ok {
					if bt, ok := info.TypeOf(id).Underlying().(*types.Basic); ok && bt.Info()&types.IsInteger != 0 {
						valVar = info.ObjectOf(id)
					}
				}
			}
			return true
		})
		for ch := int64(0); ch < 300 && bad == ""; ch++ {
			env := &aenv{info: info, vars: map[types.Object]aval{v: {i: ch}}}
			if valVar != nil {
				env.vars[valVar] = aval{i: 1}
			}
			var out outcome
			var left bool
			func() {
				defer func() {
					if r := recover(); r != nil {
						bad = "classifier not evaluable"
					}
				}()
				left = env.stmt(sw, true, &out)
			}()
			isHex := ch >= '0' && ch <= '9' || ch >= 'A' && ch <= 'F'
			if isHex {
				d := ch - '0'
				if ch >= 'A' {
					d = ch - 'A' + 10
				}
				if left || valVar == nil || env.vars[valVar].i != 16+d {
					bad = fmt.Sprintf("character %q is not read as hexadecimal digit %d", rune(ch), d)
				}
			} else if !left {
				bad = fmt.Sprintf("character %q is accepted as a hexadecimal digit (only upper-case 0-9A-F are well-formed)", rune(ch))
			}
		}
		c.check(bad == "", "NAMES-AGL", fname, "hexadecimal digits of uni/u names: exactly 0-9 and upper-case A-F with their values", sw.Pos(), "300 characters evaluated", "uni/u hex digits: "+bad)
		return true
	})
	c.check(nCls == 2, "NAMES-AGL", fname, "both algorithmic forms use the explicit upper-case hexadecimal classifier", fd.Pos(), fmt.Sprint(nCls), fmt.Sprintf("expected the uni and the u form to classify digits explicitly; found %d classifier(s): a library parser would also accept lower-case digits, signs or prefixes", nCls))

	// guards evaluated on boundary values
	type guard struct {
		name string
		re   *regexp.Regexp
		eval func(e ast.Expr) string
	}
	var conds []*ast.IfStmt
	ast.Inspect(fd.Body, func(n ast.Node) bool {
		if ifs, ok := n.(*ast.IfStmt); ok {
			conds = append(conds, ifs)
		}
		return true
	})
	lenHook := func(L int64, first int64, prefixUni bool) func(e ast.Expr) (aval, bool) {
		return func(e ast.Expr) (aval, bool) {
			switch e := e.(type) {
			case *ast.CallExpr:
				if id, ok := e.Fun.(*ast.Ident); ok && id.Name == "len" {
					return aval{i: L}, true
				}
				if types.ExprString(e.Fun) == "strings.HasPrefix" {
					return aval{isBool: true, b: prefixUni}, true
				}
			case *ast.IndexExpr:
				if k, ok := constIntOf(info, e.Index); ok && k == 0 {
					return aval{i: first}, true
				}
			}
			return aval{}, false
		}
	}
	okUniLen, okULen, okSurr, okRange, okGroup := false, false, false, false, false
	for _, ifs := range conds {
		s := types.ExprString(ifs.Cond)
		switch {
		case strings.Contains(s, "HasPrefix") && strings.Contains(s, "% 4"):
			good := true
			for L := int64(0); L < 40; L++ {
				env := &aenv{info: info, vars: map[types.Object]aval{}, hook: lenHook(L, 'u', true)}
				v, ok := env.tryEval(ifs.Cond)
				if !ok || v.b != (L%4 == 3) {
					good = false
				}
			}
			if p, ok := constStrArg(info, ifs.Cond, "strings.HasPrefix"); !ok || p != "uni" {
				good = false
			}
			okUniLen = good
		case strings.Contains(s, "len(part) >=") && strings.Contains(s, "== 'u'"):
			good := true
			for L := int64(0); L < 12; L++ {
				for _, first := range []int64{'u', 'U', 'v'} {
					env := &aenv{info: info, vars: map[types.Object]aval{}, hook: lenHook(L, first, false)}
					v, ok := env.tryEval(ifs.Cond)
					if !ok || v.b != (L >= 5 && L <= 7 && first == 'u') {
						good = false
					}
				}
			}
			okULen = good
		case strings.Contains(s, "0xD800") && strings.Contains(s, "0x110000"):
			// good && (val < 0xD800 || val >= 0xE000 && val < 0x110000)
			var valObj types.Object
			var goodObj types.Object
			for _, id := range identsOf(ifs.Cond) {
				if o, ok := info.ObjectOf(id).(*types.Var); ok {
					if bt, ok := o.Type().Underlying().(*types.Basic); ok && bt.Kind() == types.Bool {
						goodObj = o
					} else {
						valObj = o
					}
				}
			}
			good := valObj != nil
			for _, v := range []int64{0, 0xD7FF, 0xD800, 0xDFFF, 0xE000, 0xFFFF, 0x10000, 0x10FFFF, 0x110000, 0xFFFFFF} {
				env := &aenv{info: info, vars: map[types.Object]aval{valObj: {i: v}}}
				if goodObj != nil {
					env.vars[goodObj] = aval{isBool: true, b: true}
				}
				r, ok := env.tryEval(ifs.Cond)
				want := v < 0xD800 || v >= 0xE000 && v < 0x110000
				if !ok || r.b != want {
					good = false
				}
			}
			okRange = good
		case strings.Contains(s, "0xD800") && strings.Contains(s, "0xE000"):
			v := singleIntVar(info, ifs.Cond)
			if v != nil {
				set, err := intSet(info, ifs.Cond, v, []int64{0, 0xD7FF, 0xD800, 0xDBFF, 0xDFFF, 0xE000, 0xFFFF})
				okSurr = err == nil && !set[0] && !set[0xD7FF] && set[0xD800] && set[0xDBFF] && set[0xDFFF] && !set[0xE000] && !set[0xFFFF]
			}
		case strings.Contains(s, "% 4 == 3") || strings.Contains(s, "%4 == 3"):
			okGroup = true
		}
	}
	c.check(okUniLen, "NAMES-AGL", fname, "uni form: prefix uni and length ≡ 3 (mod 4)", fd.Pos(), "lengths 0..39 evaluated", "the uni form is not guarded by prefix `uni` and len%4 == 3")
	c.check(okGroup && okSurr, "NAMES-AGL", fname, "uni form: groups of four digits, surrogates D800–DFFF excluded", fd.Pos(), "boundary values evaluated", fmt.Sprintf("uni form: group boundary every four digits: %v; surrogate exclusion exact: %v", okGroup, okSurr))
	c.check(okULen, "NAMES-AGL", fname, "u form: letter u followed by 4–6 digits", fd.Pos(), "lengths 0..11 × first characters evaluated", "the u form is not guarded by 5 <= len <= 7 and first character u")
	c.check(okRange, "NAMES-AGL", fname, "u form: value below 110000 and outside D800–DFFF", fd.Pos(), "boundary values evaluated", "the u form's range test is not (v < D800 || E000 <= v < 110000)")

	// scratch state is per component
	var compLoop *ast.RangeStmt
	ast.Inspect(fd.Body, func(n ast.Node) bool {
		if rs, ok := n.(*ast.RangeStmt); ok && compLoop == nil {
			compLoop = rs
		}
		return true
	})
	if compLoop != nil {
		var leaked []string
		ast.Inspect(compLoop.Body, func(n ast.Node) bool {
			as, ok := n.(*ast.AssignStmt)
			if !ok || len(as.Lhs) != 1 || len(as.Rhs) != 1 {
				return true
			}
			call, ok := as.Rhs[0].(*ast.CallExpr)
			if !ok || types.ExprString(call.Fun) != "append" {
				return true
			}
			id, ok := as.Lhs[0].(*ast.Ident)
			if !ok {
				return true
			}
			obj := info.ObjectOf(id)
			// the result slice (returned) may live outside; any other accumulator must be declared inside the loop body
			isResult := false
			ast.Inspect(fd.Body, func(m ast.Node) bool {
				if r, ok := m.(*ast.ReturnStmt); ok && len(r.Results) == 1 {
					if rid, ok := r.Results[0].(*ast.Ident); ok && info.ObjectOf(rid) == obj {
						isResult = true
					}
				}
				return true
			})
			if !isResult && !(obj.Pos() >= compLoop.Body.Pos() && obj.Pos() < compLoop.Body.End()) {
				leaked = append(leaked, id.Name)
			}
			return true
		})
		c.check(len(leaked) == 0, "NAMES-AGL", fname, "scratch buffers are fresh for every component", compLoop.Pos(), "accumulators other than the result are declared inside the component loop", "the scratch buffer "+strings.Join(dedup(leaked), ",")+" outlives one component: code points collected for a component that turns out malformed leak into a later component")
	}
	// dingbats table only when asked for
	{
		f := c.fn("names", "ToUnicode")
		okD := true
		n := 0
		eachInstr(f, func(ins ssa.Instruction) {
			call, ok := ins.(*ssa.Call)
			if !ok || len(call.Common().Args) < 2 {
				return
			}
			if s, ok := constString(call.Common().Args[1]); ok && s == "zapfdingbats" {
				n++
				dom := false
				for _, cd := range domConds(call.Block()) {
					if p, ok := cd.v.(*ssa.Parameter); ok && cd.truth && len(f.Params) == 2 && p == f.Params[1] {
						dom = true
					}
				}
				if !dom {
					okD = false
				}
			}
		})
		c.check(okD && n == 1, "NAMES-AGL", fname, "the Zapf Dingbats list is consulted only for dingbat fonts, before the glyph list", fd.Pos(), "lookup(\"zapfdingbats\") under `dingbats`", "the dingbats table is consulted unconditionally (or not at all)")
	}
}

func constStrArg(info *types.Info, e ast.Expr, fn string) (string, bool) {
	res, ok := "", false
	ast.Inspect(e, func(n ast.Node) bool {
		if call, isC := n.(*ast.CallExpr); isC && types.ExprString(call.Fun) == fn && len(call.Args) == 2 {
			res, ok = constStrOf(info, call.Args[1])
		}
		return true
	})
	return res, ok
}

// declsFrom returns the declaration fd together with the declarations of the functions and
// methods of the same package it calls, transitively to the given depth.
func (c *Ctx) declsFrom(pkg string, fd *ast.FuncDecl, depth int) []*ast.FuncDecl {
	p := c.pkg(pkg)
	byObj := map[types.Object]*ast.FuncDecl{}
	for _, f := range p.Syntax {
		for _, d := range f.Decls {
			if x, ok := d.(*ast.FuncDecl); ok && x.Body != nil {
				byObj[p.TypesInfo.Defs[x.Name]] = x
			}
		}
	}
	seen := map[*ast.FuncDecl]bool{fd: true}
	out := []*ast.FuncDecl{fd}
	frontier := []*ast.FuncDecl{fd}
	for k := 0; k < depth; k++ {
		var next []*ast.FuncDecl
		for _, d := range frontier {
			ast.Inspect(d.Body, func(n ast.Node) bool {
				call, ok := n.(*ast.CallExpr)
				if !ok {
					return true
				}
				var id *ast.Ident
				switch f := call.Fun.(type) {
				case *ast.Ident:
					id = f
				case *ast.SelectorExpr:
					id = f.Sel
				}
				if id == nil {
					return true
				}
				if g := byObj[p.TypesInfo.Uses[id]]; g != nil && !seen[g] {
					seen[g] = true
					out = append(out, g)
					next = append(next, g)
				}
				return true
			})
		}
		frontier = next
	}
	return out
}

// namesParserRule: NAMES-PARSER.  The functions that parse the embedded lists are found by
// their role (the line loops over a bufio.Scanner reachable from ToUnicode resp. FromUnicode).
// One iteration of the loop is evaluated (ssaeval, ext_g_afm.go) for every line of the file the
// function opens — the lines of the embedded files are the cells of the table —, and what the
// iteration puts into the map has to be what the line says: name → all its code points for the
// glyph lists, code → name for the AGLFN list.  A parser that hands a field with several code
// points to one ParseInt, discards an error that does occur, uses a field index that a line
// does not have, or opens a file that is not embedded, fails this whatever its form.
func (c *Ctx) namesParserRule(tab *aglTables) {
	dir := filepath.Join(repoDir, "type1", "names")
	type parserSpec struct {
		root   *ssa.Function
		byName bool // name → codes (glyph lists); otherwise code → name (AGLFN)
		files  []string
	}
	for _, ps := range []parserSpec{
		{c.fn("names", "ToUnicode"), true, []string{"glyphlist", "zapfdingbats"}},
		{c.fn("names", "FromUnicode"), false, []string{""}},
	} {
		// the function with the line loop
		var fn *ssa.Function
		for _, f := range c.afmWriterFuncs(ps.root) {
			hasScan := false
			eachInstr(f, func(ins ssa.Instruction) {
				if call, ok := ins.(ssa.CallInstruction); ok && callName(call) == "(*bufio.Scanner).Scan" {
					hasScan = true
				}
			})
			if hasScan && fn == nil {
				fn = f
			}
		}
		rootName := c.fname(ps.root)
		if fn == nil {
			c.undecided("NAMES-PARSER", rootName, "table parser", ps.root.Pos(), "no function reachable from "+rootName+" reads lines with a bufio.Scanner: the rule cannot relate the parser to the embedded data")
			continue
		}
		// the loop may sit in a helper that is handed the source and the body: the parser is then
		// the function that opens the file and reaches the loop (ext_y7.go)
		loopFn := fn
		owner := c.loopOwnerY7(ps.root, loopFn)
		if owner != nil {
			fn = owner
		}
		fname := c.fname(fn)
		for _, file := range ps.files {
			m := c.newAfmReaderModel(loopFn)
			if owner != nil {
				m.fn, m.whole = owner, true
			}
			m.emptyState = true
			m.params = map[int]sv{}
			for i, p := range fn.Params {
				if bt, ok := p.Type().Underlying().(*types.Basic); ok && bt.Info()&types.IsString != 0 {
					m.params[i] = sv{k: svString, s: file}
				}
			}
			var opened []string
			m.onCall = func(ev *ssaEval, call ssa.CallInstruction, args []sv) (sv, bool) {
				if call == nil {
					return sv{}, false
				}
				if n := callName(call); strings.HasSuffix(n, ".Open") || strings.HasSuffix(n, ".ReadFile") {
					for _, a := range args {
						if a.k == svString {
							opened = append(opened, a.s)
						}
					}
					return sv{k: svTuple, tup: []sv{symV("file"), {k: svNil}}}, true
				}
				return sv{}, false
			}
			// which file does it open?
			first := m.run(nil, "# comment")
			what := "table " + file
			if file == "" {
				what = "table"
			}
			if len(opened) != 1 {
				c.undecided("NAMES-PARSER", fname, what+": file opened", fn.Pos(), fmt.Sprintf("the file the parser opens could not be determined (%v %s)", opened, first.why))
				continue
			}
			path := opened[0]
			data, err := os.ReadFile(filepath.Join(dir, path))
			okFile := err == nil && strings.HasPrefix(path, "agl-aglfn/") && strings.HasSuffix(path, ".txt")
			c.check(okFile, "NAMES-PARSER", fname, "the table opened exists in the embedded file set", fn.Pos(), path, "the parser opens `"+path+"`, which is not in the embedded agl-aglfn/*.txt set: a discarded error hides a nil file")
			if !okFile {
				continue
			}
			var bad []string
			var deviations [][2]string
			nLines, nData := 0, 0
			for _, line := range strings.Split(strings.ReplaceAll(string(data), "\r\n", "\n"), "\n") {
				nLines++
				opened = nil
				r := m.run(nil, line)
				var ups []ssaEffect
				if m.lastEv != nil {
					for _, ef := range m.lastEv.effects[m.lastBase:] {
						if ef.what == "mapupdate" {
							ups = append(ups, ef)
						}
					}
				}
				isData := len(line) > 0 && line[0] != '#'
				why := ""
				switch {
				case !r.ok:
					why = r.why
				case !isData:
					if len(ups) != 0 {
						why = "a comment or empty line adds an entry"
					}
				case len(ups) != 1:
					why = fmt.Sprintf("%d entries are added, expected one", len(ups))
				case ps.byName:
					nData++
					parts := strings.SplitN(line, ";", 2)
					var want []int64
					if len(parts) == 2 {
						for _, f := range strings.Fields(parts[1]) {
							v, _ := strconv.ParseInt(f, 16, 32)
							want = append(want, v)
						}
					}
					var got []int64
					el, ok := m.lastEv.elems(ups[0].args[1])
					if ups[0].args[1].k == svInt {
						// a table that keeps one code point per name
						el, ok = []sv{ups[0].args[1]}, true
					}
					for _, x := range el {
						if x.k != svInt {
							ok = false
						}
						got = append(got, x.i)
					}
					same := ok && ups[0].args[0].k == svString && ups[0].args[0].s == parts[0] && len(got) == len(want)
					for i := range want {
						if same && got[i] != want[i] {
							same = false
						}
					}
					if !same {
						why = fmt.Sprintf("the entry becomes %s → %X, the line says %X", ups[0].args[0], got, want)
						if ok && ups[0].args[0].k == svString && ups[0].args[0].s == parts[0] && len(got) == len(want) {
							// the entry is read, but to other code points than listed: one obligation
							// per such entry (a deliberate correction is a reviewed deviation)
							deviations = append(deviations, [2]string{fmt.Sprintf("%s: entry `%s` is read as %X", filepath.Base(path), line, got), fmt.Sprintf("%s:%d: the list says %s → %X, the parser makes it %X: ToUnicode does not map the name to the listed text", path, nLines, parts[0], want, got)})
							why = ""
						}
					}
				default:
					nData++
					parts := strings.SplitN(line, ";", 3)
					v, _ := strconv.ParseInt(parts[0], 16, 32)
					if len(parts) < 2 || ups[0].args[0].k != svInt || ups[0].args[0].i != v || ups[0].args[1].k != svString || ups[0].args[1].s != parts[1] {
						why = fmt.Sprintf("the entry becomes %s → %s", ups[0].args[0], ups[0].args[1])
					}
				}
				if why != "" {
					bad = append(bad, fmt.Sprintf("%s:%d `%s`: %s", path, nLines, firstN(line, 40), why))
					if len(bad) > 20 {
						break
					}
				}
			}
			for i, d := range deviations {
				if i >= 8 {
					bad = append(bad, fmt.Sprintf("… and %d more entries read to other code points than listed", len(deviations)-i))
					break
				}
				// keyed by the exported entry point, not by the (unexported, renameable) parser
				c.fail("NAMES-PARSER", rootName, d[0], fn.Pos(), d[1])
			}
			c.check(len(bad) == 0 && nData > 100, "NAMES-PARSER", fname, "every line of "+path+" is read as it stands (all code points of an entry, no error that passes unnoticed, no missing field)", fn.Pos(), fmt.Sprintf("%d lines, %d entries evaluated", nLines, nData), fmt.Sprintf("the parser does not read the embedded list as it stands (%d of the first lines differ): %s", len(bad), joinMax(bad, 3)))
		}
	}
}
