// Command psa is the static analyser that decides the properties of
// /verif/properties.jsonl for seehuhn/go-postscript.  See /verif/DESIGN.md.
//
// Usage:
//
//	psa check <ID> [--tier quick|thorough]
//	psa replay <path>
//	psa list
package main

import (
	"encoding/json"
	"fmt"
	"os"
	"path/filepath"
	"runtime/debug"
	"sort"
	"strconv"
	"strings"
	"time"
)

var verifDir = envOr("PSA_VERIF", "/verif")
var repoDir = envOr("PSA_REPO", "/repo")

func envOr(k, d string) string {
	if v := os.Getenv(k); v != "" {
		return v
	}
	return d
}

// A propCheck runs all rules of one property.
type propCheck struct {
	id    string
	title string
	// explanation of what the check decides and what it does not
	explanation string
	trusted     []string
	assumptions []string
	run         func(c *Ctx)
}

var checks = map[string]*propCheck{}

func register(p *propCheck) { checks[p.id] = p }

func main() {
	if len(os.Args) < 2 {
		usage()
	}
	switch os.Args[1] {
	case "check":
		if len(os.Args) < 3 {
			usage()
		}
		id := os.Args[2]
		tier := envOr("VERIF_TIER", "quick")
		only := ""
		for i := 3; i < len(os.Args); i++ {
			switch os.Args[i] {
			case "--tier":
				i++
				tier = os.Args[i]
			case "--only":
				i++
				only = os.Args[i]
			case "--no-evidence":
				noEvidence = true
			case "-v", "--verbose":
				verbose = true
			case "--draft-reviewed":
				draftReviewed = true
			}
		}
		os.Exit(runCheck(id, tier, only))
	case "anchors":
		writeAnchors()
	case "replay":
		if len(os.Args) < 3 {
			usage()
		}
		os.Exit(runReplay(os.Args[2]))
	case "list":
		var ids []string
		for id := range checks {
			ids = append(ids, id)
		}
		sort.Strings(ids)
		for _, id := range ids {
			fmt.Println(id, checks[id].title)
		}
	default:
		usage()
	}
}

var noEvidence, verbose, draftReviewed bool

func usage() {
	fmt.Fprintln(os.Stderr, "usage: psa check <ID> [--tier quick|thorough] | psa replay <path> | psa list")
	os.Exit(2)
}

func runCheck(id, tier, only string) (exit int) {
	start := time.Now()
	pc := checks[id]
	if pc == nil {
		fmt.Fprintf(os.Stderr, "unknown property %s\n", id)
		return 2
	}
	if tier != "quick" && tier != "thorough" {
		tier = "quick"
	}
	seed := 0
	if s := os.Getenv("VERIF_SEED"); s != "" {
		seed, _ = strconv.Atoi(s)
	}
	rep := newReport(id, tier)
	c := &Ctx{rep: rep, tier: tier, prop: id}

	func() {
		defer func() {
			if r := recover(); r != nil {
				if ab, ok := r.(abortCheck); ok {
					rep.add(Obligation{Rule: "ENGINE", Func: "-", Construct: ab.what, Status: stViolation, Kind: "undecided",
						Detail: "analysis could not be completed: " + ab.what})
					return
				}
				rep.add(Obligation{Rule: "ENGINE", Func: "-", Construct: "analyser panic", Status: stViolation, Kind: "undecided",
					Detail: fmt.Sprintf("analyser panic: %v\n%s", r, debug.Stack())})
			}
		}()
		c.load()
		pc.run(c)
		if tier == "thorough" {
			c.thorough(pc)
			c.selfTest(id)
			c.crossReference()
		}
	}()

	rep.finish(c)
	known := loadKnown()
	reviewed := loadReviewed(id)
	rep.classify(known, reviewed)

	if draftReviewed {
		var list []reviewedEntry
		for _, o := range rep.Obl {
			if o.Status == stViolation {
				list = append(list, reviewedEntry{Key: o.Key(), Reason: "TODO", Requires: o.Facts})
			}
		}
		data, _ := json.MarshalIndent(list, "", " ")
		fmt.Println(string(data))
		return 0
	}
	// output
	nviol := 0
	for i := range rep.Obl {
		o := &rep.Obl[i]
		if only != "" && o.Key() != only {
			continue
		}
		if verbose {
			fmt.Printf("  %-10s %-14s %-40s %s  [%s] %s\n", o.Status, o.Rule, o.Func, o.Construct, o.Tactic, o.Pos)
		}
		switch o.Status {
		case stKnown:
			fmt.Printf("KNOWN-FINDING: property=%s %s\n", id, o.Key()+": "+firstLine(o.Detail))
		case stViolation:
			nviol++
			path := writeReplay(id, o)
			fmt.Printf("%s: %s [%s] %s: %s\n", o.Pos, o.Rule, o.Func, o.Construct, firstLine(o.Detail))
			fmt.Printf("VIOLATION property=%s replay=%s\n", id, path)
		}
	}
	for _, n := range rep.Notes {
		fmt.Println("note:", n)
	}
	wall := time.Since(start).Seconds()
	if !noEvidence && only == "" {
		writeEvidence(pc, rep, seed, wall, nviol)
	}
	fmt.Printf("psa: property=%s tier=%s packages=%d functions=%d obligations=%d discharged=%d reviewed=%d known=%d violations=%d (%.1fs)\n",
		id, tier, c.npkgs, c.nfuncs, len(rep.Obl), rep.count(stOK), rep.count(stReviewed), rep.count(stKnown), nviol, wall)
	if nviol > 0 {
		return 1
	}
	if len(selfTestFailures) > 0 {
		for _, l := range selfTestFailures {
			fmt.Println(l)
		}
		return 2
	}
	return 0
}

func firstLine(s string) string {
	if i := strings.IndexByte(s, '\n'); i >= 0 {
		return s[:i]
	}
	return s
}

func runReplay(path string) int {
	data, err := os.ReadFile(path)
	if err != nil {
		fmt.Fprintln(os.Stderr, err)
		return 2
	}
	var r struct {
		Property string `json:"property"`
		Key      string `json:"key"`
	}
	if err := json.Unmarshal(data, &r); err != nil {
		fmt.Fprintln(os.Stderr, err)
		return 2
	}
	fmt.Printf("replaying %s on the current tree (property %s)\n", r.Key, r.Property)
	noEvidence = true
	return runCheck(r.Property, "quick", r.Key)
}

func writeReplay(id string, o *Obligation) string {
	dir := filepath.Join(verifDir, "replays")
	os.MkdirAll(dir, 0o755)
	h := fnv32(o.Key())
	path := filepath.Join(dir, fmt.Sprintf("%s-%08x.json", id, h))
	data, _ := json.MarshalIndent(map[string]any{
		"property":  id,
		"key":       o.Key(),
		"rule":      o.Rule,
		"function":  o.Func,
		"construct": o.Construct,
		"pos":       o.Pos,
		"kind":      o.Kind,
		"detail":    o.Detail,
		"replay":    "bin/psa replay " + path,
	}, "", " ")
	os.WriteFile(path, data, 0o644)
	return path
}

func fnv32(s string) uint32 {
	h := uint32(2166136261)
	for i := 0; i < len(s); i++ {
		h ^= uint32(s[i])
		h *= 16777619
	}
	return h
}
