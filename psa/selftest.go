package main

import (
	"encoding/json"
	"fmt"
	"os"
	"os/exec"
	"path/filepath"
	"regexp"
	"sort"
	"strings"
	"sync"
)

// Self-test of the thorough tier: every stored seeded change (/verif/seeded/<name>/patch.diff)
// that this property's check is recorded to report is applied to a scratch copy of the current
// working tree, the check is run on the copy (still purely static: the copy is only parsed and
// type-checked), and it must report a violation under one of the recorded rules.  A stored change
// that no longer applies to the current tree is skipped and listed.

type seedMeta struct {
	Name       string              `json:"name"`
	Property   string              `json:"property"`
	Confirmed  bool                `json:"confirmed"`
	ReportedBy map[string][]string `json:"reported_by"`
}

type selfTestResult struct {
	Seed    string   `json:"seed"`
	Outcome string   `json:"outcome"` // fired | silent | skipped
	Rules   []string `json:"rules,omitempty"`
	Detail  string   `json:"detail,omitempty"`
}

// selfTestFailures: the checker itself is broken on this tree (exit 2, no VIOLATION line).
var selfTestFailures []string

var ruleLine = regexp.MustCompile(`(?m)^\S*: ([A-Z0-9@-]+) \[`)

func (c *Ctx) selfTest(id string) {
	if os.Getenv("PSA_SELFTEST_CHILD") != "" {
		return
	}
	metas, _ := filepath.Glob(filepath.Join(verifDir, "seeded", "*", "meta.json"))
	sort.Strings(metas)
	var todo []seedMeta
	for _, m := range metas {
		data, err := os.ReadFile(m)
		if err != nil {
			continue
		}
		var sm seedMeta
		if json.Unmarshal(data, &sm) != nil || !sm.Confirmed {
			continue
		}
		if len(sm.ReportedBy[id]) > 0 {
			todo = append(todo, sm)
		}
	}
	results := make([]selfTestResult, len(todo))
	var wg sync.WaitGroup
	sem := make(chan struct{}, 4)
	for i, sm := range todo {
		wg.Add(1)
		go func(i int, sm seedMeta) {
			defer wg.Done()
			sem <- struct{}{}
			defer func() { <-sem }()
			results[i] = runSeed(id, sm)
		}(i, sm)
	}
	wg.Wait()
	fired, skipped := 0, 0
	for _, r := range results {
		switch r.Outcome {
		case "fired":
			fired++
		case "skipped":
			skipped++
		case "silent":
			selfTestFailures = append(selfTestFailures, fmt.Sprintf("SELFTEST-FAIL property=%s seed=%s: the stored property-breaking change applies to the current tree but the check did not report it (%s)", id, r.Seed, r.Detail))
		}
	}
	for _, r := range results {
		if r.Outcome == "fired" {
			c.rep.add(Obligation{Rule: "SELFTEST", Func: "-", Construct: "seeded change " + r.Seed + " is reported", Status: stOK, Tactic: "reported under " + strings.Join(r.Rules, ", ")})
		}
	}
	c.rep.Extra["selftest"] = results
	c.note("self-test: %d stored seeded changes applied to scratch copies, %d reported, %d skipped (no longer apply)", len(todo), fired, skipped)
}

func runSeed(id string, sm seedMeta) selfTestResult {
	res := selfTestResult{Seed: sm.Name}
	tmp, err := os.MkdirTemp("", "psa-selftest-")
	if err != nil {
		res.Outcome, res.Detail = "skipped", err.Error()
		return res
	}
	defer os.RemoveAll(tmp)
	repo := repoDir
	if out, err := exec.Command("rsync", "-a", "--exclude", ".git", repo+"/", tmp+"/").CombinedOutput(); err != nil {
		res.Outcome, res.Detail = "skipped", "copy failed: "+string(out)
		return res
	}
	patch := filepath.Join(verifDir, "seeded", sm.Name, "patch.diff")
	ap := exec.Command("git", "apply", patch)
	ap.Dir = tmp
	ap.Env = append(os.Environ(), "GIT_CEILING_DIRECTORIES="+filepath.Dir(tmp))
	if out, err := ap.CombinedOutput(); err != nil {
		res.Outcome, res.Detail = "skipped", "patch does not apply to the current tree: "+firstLine(string(out))
		return res
	}
	cmd := exec.Command(os.Args[0], "check", id, "--no-evidence")
	cmd.Env = append(os.Environ(), "PSA_REPO="+tmp, "PSA_SELFTEST_CHILD=1")
	out, _ := cmd.CombinedOutput()
	got := map[string]bool{}
	for _, m := range ruleLine.FindAllStringSubmatch(string(out), -1) {
		got[m[1]] = true
	}
	var hit []string
	for _, r := range sm.ReportedBy[id] {
		if got[r] {
			hit = append(hit, r)
		}
	}
	if len(hit) > 0 {
		res.Outcome, res.Rules = "fired", hit
		return res
	}
	var all []string
	for r := range got {
		all = append(all, r)
	}
	sort.Strings(all)
	res.Outcome = "silent"
	res.Detail = fmt.Sprintf("expected one of %v, got %v", sm.ReportedBy[id], all)
	return res
}

// crossReference runs the generic analysers that are installed in the image and records what
// they say in the evidence.  They never decide anything (DESIGN.md §2).
func (c *Ctx) crossReference() {
	if os.Getenv("PSA_SELFTEST_CHILD") != "" {
		return
	}
	type xref struct {
		Tool        string   `json:"tool"`
		Diagnostics int      `json:"diagnostics"`
		Sample      []string `json:"sample,omitempty"`
		Error       string   `json:"error,omitempty"`
	}
	var out []xref
	for _, t := range [][]string{{"errcheck", "-blank", "./..."}, {"staticcheck", "./..."}} {
		x := xref{Tool: strings.Join(t, " ")}
		if _, err := exec.LookPath(t[0]); err != nil {
			x.Error = "not installed"
			out = append(out, x)
			continue
		}
		cmd := exec.Command(t[0], t[1:]...)
		cmd.Dir = repoDir
		cmd.Env = append(os.Environ(), "GOFLAGS=-mod=mod", "GOPROXY=off", "GOSUMDB=off", "GOTOOLCHAIN=local", "GOWORK=off")
		data, _ := cmd.CombinedOutput()
		for _, l := range strings.Split(strings.TrimSpace(string(data)), "\n") {
			if l == "" || strings.Contains(l, "_test.go") {
				continue
			}
			x.Diagnostics++
			if len(x.Sample) < 8 {
				x.Sample = append(x.Sample, l)
			}
		}
		out = append(out, x)
	}
	c.rep.Extra["cross_reference_not_deciding"] = out
}
