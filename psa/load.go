package main

import (
	"fmt"
	"go/ast"
	"go/constant"
	"go/token"
	"go/types"
	"os"
	"path/filepath"
	"sort"
	"strings"

	"golang.org/x/tools/go/callgraph"
	"golang.org/x/tools/go/callgraph/cha"
	"golang.org/x/tools/go/callgraph/vta"
	"golang.org/x/tools/go/packages"
	"golang.org/x/tools/go/ssa"
	"golang.org/x/tools/go/ssa/ssautil"
)

const modPath = "seehuhn.de/go/postscript"

var shortPkg = map[string]string{
	"postscript": modPath,
	"type1":      modPath + "/type1",
	"names":      modPath + "/type1/names",
	"afm":        modPath + "/afm",
	"pfb":        modPath + "/pfb",
	"psenc":      modPath + "/psenc",
	"funit":      modPath + "/funit",
	"cid":        modPath + "/cid",
}

type abortCheck struct{ what string }

func abort(format string, a ...any) { panic(abortCheck{fmt.Sprintf(format, a...)}) }

// Ctx is the loaded program plus the report of the running check.
type Ctx struct {
	rep  *Report
	tier string
	prop string

	fset   *token.FileSet
	pkgs   map[string]*packages.Package // by import path (module packages only)
	prog   *ssa.Program
	spkgs  map[string]*ssa.Package
	cg     *callgraph.Graph
	npkgs  int
	nfuncs int

	modFuncs  []*ssa.Function // all functions of module packages (incl. anonymous), sorted by position
	goarch    string
	eff       *effAnalysis
	reg       *registry
	tmpl      *fontTmpl
	roles     map[string]string
	ren       *renameMap
	roleOwner map[string]*types.TypeName

	globalMaps map[*ssa.Global]*mapContents // ext_x5.go
	consumers  map[*ssa.Function]bool       // ext_x5.go
}

func (c *Ctx) load() {
	env := append(os.Environ(), "GOFLAGS=-mod=mod", "GOPROXY=off", "GOSUMDB=off", "GOWORK=off", "GOTOOLCHAIN=local")
	if c.goarch != "" {
		env = append(env, "GOARCH="+c.goarch)
	}
	cfg := &packages.Config{
		Mode: packages.NeedName | packages.NeedFiles | packages.NeedCompiledGoFiles | packages.NeedImports |
			packages.NeedDeps | packages.NeedTypes | packages.NeedSyntax | packages.NeedTypesInfo |
			packages.NeedTypesSizes | packages.NeedModule | packages.NeedEmbedFiles,
		Dir:   repoDir,
		Env:   env,
		Tests: false,
	}
	pkgs, err := packages.Load(cfg, "./...")
	if err != nil {
		abort("go/packages: %v", err)
	}
	c.pkgs = map[string]*packages.Package{}
	var terrs []string
	packages.Visit(pkgs, nil, func(p *packages.Package) {
		for _, e := range p.Errors {
			terrs = append(terrs, e.Error())
		}
	})
	if len(terrs) > 0 {
		abort("the tree does not type-check: %s", strings.Join(terrs, "; "))
	}
	for _, p := range pkgs {
		if strings.Contains(p.PkgPath, "/examples/") {
			continue
		}
		c.pkgs[p.PkgPath] = p
		c.fset = p.Fset
	}
	c.npkgs = len(c.pkgs)
	if c.npkgs < 8 {
		abort("only %d library packages loaded from %s (expected at least 8)", c.npkgs, repoDir)
	}
	prog, spkgs := ssautil.AllPackages(pkgs, ssa.InstantiateGenerics)
	prog.Build()
	c.prog = prog
	c.spkgs = map[string]*ssa.Package{}
	for i, p := range pkgs {
		if spkgs[i] != nil {
			c.spkgs[p.PkgPath] = spkgs[i]
		}
	}
	for fn := range ssautil.AllFunctions(prog) {
		if c.inModule(fn) && fn.Blocks != nil {
			c.modFuncs = append(c.modFuncs, fn)
		}
	}
	sort.Slice(c.modFuncs, func(i, j int) bool {
		a, b := c.modFuncs[i], c.modFuncs[j]
		if a.Pos() != b.Pos() {
			return a.Pos() < b.Pos()
		}
		return a.String() < b.String()
	})
	c.nfuncs = len(c.modFuncs)
	feCtx = c
}

// inModule reports whether fn belongs to a library package of the module
// (examples excluded).
func (c *Ctx) inModule(fn *ssa.Function) bool {
	for fn != nil && fn.Pkg == nil {
		if fn.Parent() != nil {
			fn = fn.Parent()
		} else if o := fn.Origin(); o != nil {
			fn = o
		} else {
			return false
		}
	}
	if fn == nil {
		return false
	}
	_, ok := c.pkgs[fn.Pkg.Pkg.Path()]
	return ok
}

func (c *Ctx) callgraph() *callgraph.Graph {
	if c.cg == nil {
		c.cg = vta.CallGraph(ssautil.AllFunctions(c.prog), cha.CallGraph(c.prog))
	}
	return c.cg
}

func (c *Ctx) pkg(short string) *packages.Package {
	p := c.pkgs[shortPkg[short]]
	if p == nil {
		abort("package %s not found", short)
	}
	return p
}

func (c *Ctx) spkg(short string) *ssa.Package {
	p := c.spkgs[shortPkg[short]]
	if p == nil {
		abort("ssa package %s not found", short)
	}
	return p
}

// fn resolves a package-level function.
func (c *Ctx) fn(pkg, name string) *ssa.Function {
	f := c.fnOpt(pkg, name)
	if f == nil {
		abort("anchor: function %s.%s not found", pkg, name)
	}
	return f
}

func (c *Ctx) fnOpt(pkg, name string) *ssa.Function {
	if f := c.spkg(pkg).Func(name); f != nil {
		return f
	}
	if recv, nm, ok := c.curFunc(pkg, "", name); ok {
		if recv == "" {
			return c.spkg(pkg).Func(nm)
		}
		return c.methodByName(pkg, recv, nm)
	}
	return nil
}

// method resolves a method (pointer or value receiver) of a named type.
func (c *Ctx) method(pkg, typ, name string) *ssa.Function {
	f := c.methodOpt(pkg, typ, name)
	if f == nil {
		abort("anchor: method %s.%s.%s not found", pkg, typ, name)
	}
	return f
}

func (c *Ctx) methodOpt(pkg, typ, name string) *ssa.Function {
	if f := c.methodByName(pkg, c.curType(pkg, typ), name); f != nil {
		return f
	}
	if recv, nm, ok := c.curFunc(pkg, typ, name); ok {
		if recv == "" {
			return c.spkg(pkg).Func(nm)
		}
		return c.methodByName(pkg, recv, nm)
	}
	return nil
}

func (c *Ctx) methodByName(pkg, typ, name string) *ssa.Function {
	obj := c.pkg(pkg).Types.Scope().Lookup(typ)
	if obj == nil {
		return nil
	}
	tn, ok := obj.(*types.TypeName)
	if !ok {
		return nil
	}
	for _, T := range []types.Type{tn.Type(), types.NewPointer(tn.Type())} {
		ms := c.prog.MethodSets.MethodSet(T)
		for i := 0; i < ms.Len(); i++ {
			sel := ms.At(i)
			if sel.Obj().Name() == name && sel.Obj().Pkg() == tn.Pkg() {
				if f := c.prog.MethodValue(sel); f != nil && f.Synthetic == "" {
					return f
				}
				// promoted through wrapper: resolve the declared func
				if fobj, ok := sel.Obj().(*types.Func); ok {
					if f := c.prog.FuncValue(fobj); f != nil {
						return f
					}
				}
			}
		}
	}
	return nil
}

func (c *Ctx) typeObj(pkg, name string) *types.TypeName {
	obj, _ := c.pkg(pkg).Types.Scope().Lookup(c.curType(pkg, name)).(*types.TypeName)
	if obj == nil {
		abort("anchor: type %s.%s not found", pkg, name)
	}
	return obj
}

func (c *Ctx) global(pkg, name string) *types.Var {
	obj, _ := c.pkg(pkg).Types.Scope().Lookup(c.curVal(pkg, name)).(*types.Var)
	if obj == nil {
		abort("anchor: variable %s.%s not found", pkg, name)
	}
	return obj
}

func (c *Ctx) constant(pkg, name string) constant.Value {
	obj, _ := c.pkg(pkg).Types.Scope().Lookup(c.curVal(pkg, name)).(*types.Const)
	if obj == nil {
		abort("anchor: constant %s.%s not found", pkg, name)
	}
	return obj.Val()
}

func (c *Ctx) constInt(pkg, name string) int64 {
	v := c.constant(pkg, name)
	i, ok := constant.Int64Val(constant.ToInt(v))
	if !ok {
		abort("constant %s.%s is not an integer", pkg, name)
	}
	return i
}

// pos renders a position relative to the repository root.
func (c *Ctx) pos(p token.Pos) string {
	if !p.IsValid() {
		return ""
	}
	pp := c.fset.Position(p)
	rel, err := filepath.Rel(repoDir, pp.Filename)
	if err != nil {
		rel = pp.Filename
	}
	return fmt.Sprintf("%s:%d", rel, pp.Line)
}

// fname is the stable display name of a function: pkg.Func, pkg.(T).M, or
// parent$registrykey for anonymous functions (set by the registry).
func (c *Ctx) fname(fn *ssa.Function) string {
	if fn == nil {
		return "-"
	}
	if n, ok := anonNames[fn]; ok {
		return n
	}
	if par := fn.Parent(); par != nil {
		// anonymous function: name it by its position among the parent's literals
		for i, an := range par.AnonFuncs {
			if an == fn {
				return fmt.Sprintf("%s$%d", c.fname(par), i+1)
			}
		}
	}
	s := fn.String()
	s = strings.ReplaceAll(s, modPath+"/type1/names", "names")
	s = strings.ReplaceAll(s, modPath+"/", "")
	s = strings.ReplaceAll(s, modPath, "postscript")
	return s
}

var anonNames = map[*ssa.Function]string{}

// ---- reporting helpers

func (c *Ctx) ok(rule string, fn string, construct string, pos token.Pos, tactic, detail string) {
	c.rep.add(Obligation{Rule: rule, Func: fn, Construct: construct, Pos: c.pos(pos), Status: stOK, Tactic: tactic, Detail: detail})
}

func (c *Ctx) fail(rule string, fn string, construct string, pos token.Pos, detail string, facts ...string) {
	c.rep.add(Obligation{Rule: rule, Func: fn, Construct: construct, Pos: c.pos(pos), Status: stViolation, Kind: "violation", Detail: detail, Facts: facts})
}

func (c *Ctx) undecided(rule string, fn string, construct string, pos token.Pos, detail string, facts ...string) {
	c.rep.add(Obligation{Rule: rule, Func: fn, Construct: construct, Pos: c.pos(pos), Status: stViolation, Kind: "undecided", Detail: detail, Facts: facts})
}

// check records ok or fail depending on cond.
func (c *Ctx) check(cond bool, rule, fn, construct string, pos token.Pos, tactic, failDetail string) bool {
	if cond {
		c.ok(rule, fn, construct, pos, tactic, "")
	} else {
		c.fail(rule, fn, construct, pos, failDetail)
	}
	return cond
}

func (c *Ctx) floor(rule string, n int) {
	if c.rep.only != nil && !c.rep.only[rule] {
		return
	}
	c.rep.Floors[rule] = n
}

// withOnly runs f while only the named rules are recorded: a rule family that is a necessary
// condition of more than one property is run under each of them.
func (c *Ctx) withOnly(rules []string, f func()) {
	saved := c.rep.only
	c.rep.only = map[string]bool{}
	for _, r := range rules {
		c.rep.only[r] = true
	}
	defer func() { c.rep.only = saved }()
	f()
}
func (c *Ctx) note(format string, a ...any) {
	c.rep.Notes = append(c.rep.Notes, fmt.Sprintf(format, a...))
}

// ---- AST helpers

// funcDecl returns the declaration of a package-level function or method.
func (c *Ctx) funcDecl(pkg, recv, name string) *ast.FuncDecl {
	if fd := c.funcDeclOpt(pkg, recv, name); fd != nil {
		return fd
	}
	abort("anchor: declaration of %s.%s.%s not found", pkg, recv, name)
	return nil
}

func (c *Ctx) funcDeclOpt(pkg, recv, name string) *ast.FuncDecl {
	if fd := c.funcDeclByName(pkg, c.curTypeOr(pkg, recv), name); fd != nil {
		return fd
	}
	if r, nm, ok := c.curFunc(pkg, recv, name); ok {
		return c.funcDeclByName(pkg, r, nm)
	}
	return nil
}

func (c *Ctx) curTypeOr(pkg, recv string) string {
	if recv == "" {
		return ""
	}
	return c.curType(pkg, recv)
}

func (c *Ctx) funcDeclByName(pkg, recv, name string) *ast.FuncDecl {
	p := c.pkg(pkg)
	for _, f := range p.Syntax {
		for _, d := range f.Decls {
			fd, ok := d.(*ast.FuncDecl)
			if !ok || fd.Name.Name != name {
				continue
			}
			if recv == "" && fd.Recv == nil {
				return fd
			}
			if recv != "" && fd.Recv != nil && len(fd.Recv.List) == 1 {
				t := fd.Recv.List[0].Type
				if st, ok := t.(*ast.StarExpr); ok {
					t = st.X
				}
				if id, ok := t.(*ast.Ident); ok && id.Name == recv {
					return fd
				}
			}
		}
	}
	return nil
}

func (c *Ctx) info(pkg string) *types.Info { return c.pkg(pkg).TypesInfo }

// constOf evaluates an expression to a constant if the type checker did.
func constOf(info *types.Info, e ast.Expr) (constant.Value, bool) {
	tv, ok := info.Types[e]
	if !ok || tv.Value == nil {
		return nil, false
	}
	return tv.Value, true
}

func constIntOf(info *types.Info, e ast.Expr) (int64, bool) {
	v, ok := constOf(info, e)
	if !ok {
		return 0, false
	}
	if v.Kind() != constant.Int {
		v = constant.ToInt(v)
		if v.Kind() != constant.Int {
			return 0, false
		}
	}
	return constant.Int64Val(v)
}

func constStrOf(info *types.Info, e ast.Expr) (string, bool) {
	v, ok := constOf(info, e)
	if !ok || v.Kind() != constant.String {
		return "", false
	}
	return constant.StringVal(v), true
}

func unparen(e ast.Expr) ast.Expr {
	for {
		p, ok := e.(*ast.ParenExpr)
		if !ok {
			return e
		}
		e = p.X
	}
}

// thorough runs the additional thorough-tier work of a check: the same
// rules under GOARCH=386 type sizes.
func (c *Ctx) thorough(pc *propCheck) {
	c2 := &Ctx{rep: newReport(c.prop, c.tier), tier: c.tier, prop: c.prop, goarch: "386"}
	func() {
		defer func() {
			if r := recover(); r != nil {
				c.rep.add(Obligation{Rule: "ENGINE", Func: "-", Construct: "GOARCH=386 pass", Status: stViolation, Kind: "undecided", Detail: fmt.Sprint(r)})
			}
		}()
		c2.load()
		pc.run(c2)
		c2.rep.finish(c2)
	}()
	n := 0
	for _, o := range c2.rep.Obl {
		o.Rule = o.Rule + "@386"
		if o.Status == stViolation {
			// only report what the amd64 pass did not already report
			dup := false
			for _, o1 := range c.rep.Obl {
				if o1.Status == stViolation && o1.Rule+"@386" == o.Rule && o1.Func == o.Func && o1.Construct == o.Construct {
					dup = true
				}
			}
			if dup {
				continue
			}
		}
		c.rep.Obl = append(c.rep.Obl, o)
		n++
	}
	c.rep.Extra["goarch_386_obligations"] = n
}

func envBase() []string { return os.Environ() }
