package main

import (
	"fmt"
	"go/token"
	"go/types"
	"strings"

	"golang.org/x/tools/go/ssa"
)

// Slot invariants: lower bounds on the length of slice-typed fields of the interpreter which the
// bounds proofs may use as facts at function entry.  Each one is established here from the code
// on every run (and withdrawn, with a violation, when it cannot be established); none is assumed.
//
//   always:  len(T.f) >= min at every program point after construction: every allocation of T in
//            the module initialises f with at least min elements, every store to f in the module
//            stores a value whose length is shown >= min by the fact engine (using the invariant
//            itself at function entry: induction over the writers), and the address of f is not
//            taken for anything but loads and stores.
//   extent:  len(T.f) >= 1 inside every function that can only be running while a frame of the
//            one pushing function P is active past its push: the only writers of f are the push
//            `f = append(f, x)` in P and the pop `f = f[:len(f)-1]` in a closure that P defers
//            after the push; there are no go statements in the module; the users of the fact are
//            unreachable from the module's entry points once the calls P makes after the push are
//            removed from the call graph.

type slotInvariant struct {
	key   string                 // fieldName form: <struct type>.<field>
	min   int64                  //
	scope map[*ssa.Function]bool // nil: every function of the module
	// extra: length atoms of values that are the slot itself, read through its address at the entry
	// of the function holding the deferred pop
	extra map[string]bool
}

var slotInvariants []*slotInvariant

// slotFact returns the facts the established invariants give for a length atom of the fact engine.
func slotFacts(a string) []Lin {
	var out []Lin
	for _, inv := range slotInvariants {
		if inv.extra[a] {
			out = append(out, atom(a).addK(-inv.min))
		}
	}
	if !strings.HasSuffix(a, "@entry)") || !strings.HasPrefix(a, "len(") {
		return out
	}
	for _, inv := range slotInvariants {
		suffix := "." + inv.key + "@entry)"
		if !strings.HasSuffix(a, suffix) {
			continue
		}
		if inv.scope != nil {
			base := strings.TrimSuffix(strings.TrimPrefix(a, "len("), suffix)
			i := strings.LastIndex(base, "#")
			if i < 0 {
				continue
			}
			var fn *ssa.Function
			for f := range inv.scope {
				if f.String() == base[:i] {
					fn = f
					break
				}
			}
			if fn == nil {
				continue
			}
		}
		out = append(out, atom(a).addK(-inv.min))
	}
	return out
}

type slotWriter struct {
	fn  *ssa.Function
	st  *ssa.Store
	key string
	// via: the store is made through the address of the field, handed to fn (parameter number
	// viaParam) by this call instruction
	via      ssa.CallInstruction
	viaParam int
}

func isFieldOf(fa *ssa.FieldAddr, key string) bool { return fieldName(fa) == key }

// slotWriters: every store to the field in the module; escapes lists other uses of its address.
func (c *Ctx) slotWriters(key string) (writers []slotWriter, escapes []ssa.Instruction) {
	for _, fn := range c.modFuncs {
		for _, b := range fn.Blocks {
			for _, ins := range b.Instrs {
				fa, ok := ins.(*ssa.FieldAddr)
				if !ok || !isFieldOf(fa, key) {
					continue
				}
				for _, u := range *fa.Referrers() {
					switch u := u.(type) {
					case *ssa.Store:
						if u.Addr == ssa.Value(fa) {
							writers = append(writers, slotWriter{fn: fn, st: u, key: key})
						} else {
							escapes = append(escapes, u)
						}
					case *ssa.UnOp:
						if u.Op != token.MUL {
							escapes = append(escapes, u)
						}
					case *ssa.DebugRef:
					case ssa.CallInstruction:
						// the address is an argument of a static call: a function that only reads through it
						// is a load; one that appends to / re-slices what it points to holds writers (ext_y1.go)
						ws, ok := accessorWriters(u, fa, key)
						if !ok {
							escapes = append(escapes, u)
						}
						writers = append(writers, ws...)
					default:
						escapes = append(escapes, u)
					}
				}
			}
		}
	}
	return
}

func structOfKey(c *Ctx, pkg, typ string) *types.Named {
	return c.typeObj(pkg, typ).Type().(*types.Named)
}

// establishSlotInvariants checks the invariants and installs those that hold.
func (c *Ctx) establishSlotInvariants(report bool) {
	slotInvariants = nil
	slotReport = report
	T := structOfKey(c, "postscript", "Interpreter")
	tname := types.TypeString(T, nil)
	c.slotAlways(T, tname+".DictStack", 2)
	c.slotExtent(T, c.fldKey("intp.scanners"))
}

func (c *Ctx) slotAlways(T *types.Named, key string, min int64) {
	const rule = "SLOT-INV"
	what := fmt.Sprintf("len(%s) >= %d at all times", shortKey(key), min)
	inv := &slotInvariant{key: key, min: min}
	slotInvariants = append(slotInvariants, inv) // tentatively: the induction hypothesis
	withdraw := func() {
		for i, x := range slotInvariants {
			if x == inv {
				slotInvariants = append(slotInvariants[:i], slotInvariants[i+1:]...)
			}
		}
	}
	good := true
	writers, escapes := c.slotWriters(key)
	writers, escapes = accessorWritersAsEscapes(writers, escapes)
	for _, e := range escapes {
		good = false
		c.sfail(rule, e.Parent().String(), what+": address use "+c.valShapeIns(e), e.Pos(),
			"the address of the field is used for something other than a load or a store, so its writers cannot be enumerated")
	}
	// every allocation of the struct initialises the field
	nalloc := 0
	for _, fn := range c.modFuncs {
		for _, b := range fn.Blocks {
			for i, ins := range b.Instrs {
				al, ok := ins.(*ssa.Alloc)
				if !ok {
					continue
				}
				if !types.Identical(al.Type().Underlying().(*types.Pointer).Elem(), T) {
					continue
				}
				nalloc++
				inited := false
			scan:
				for _, later := range b.Instrs[i+1:] {
					switch l := later.(type) {
					case *ssa.Store:
						if fa, ok := l.Addr.(*ssa.FieldAddr); ok && fa.X == ssa.Value(al) && isFieldOf(fa, key) {
							inited = true
							break scan
						}
					case ssa.CallInstruction:
						for _, a := range l.Common().Args {
							if a == ssa.Value(al) {
								break scan
							}
						}
						if l.Common().Value == ssa.Value(al) {
							break scan
						}
					case *ssa.Return:
						break scan
					}
				}
				if !inited {
					good = false
					c.sfail(rule, fn.String(), what+": allocation", al.Pos(),
						"an interpreter is allocated without the field being initialised before it is used")
				} else {
					c.sok(rule, fn.String(), what+": allocation", al.Pos(), "the field is stored before the new object is passed on", "")
				}
			}
		}
	}
	if nalloc == 0 {
		good = false
		c.sfail(rule, "-", what+": allocation", token.NoPos, "no allocation of the interpreter found: the rule lost its anchor")
	}
	for n, w := range writers {
		fi := newFuncInfo(w.fn)
		goal := fi.lenOf(w.st.Val).addK(-min)
		construct := fmt.Sprintf("%s: store %s", what, c.valShape(w.st.Val))
		_ = n
		if fi.prove([]Lin{goal}, fi.factsAt(w.st.Block(), w.st), 2) {
			c.sok(rule, w.fn.String(), construct, w.st.Pos(), "stored length shown >= the minimum from the guards and the invariant at entry", "")
		} else {
			good = false
			c.sfail(rule, w.fn.String(), construct, w.st.Pos(),
				fmt.Sprintf("cannot show that the value stored to %s has at least %d elements: code that indexes the top of this stack without a test can panic", shortKey(key), min))
		}
	}
	if len(writers) < 2 {
		good = false
		c.sfail(rule, "-", what+": writers", token.NoPos, "fewer than two stores to the field found: the rule lost its anchor")
	}
	if !good {
		withdraw()
	}
}

func shortKey(key string) string {
	if i := strings.LastIndex(key, "/"); i >= 0 {
		key = key[i+1:]
	}
	if i := strings.Index(key, "."); i >= 0 {
		key = key[i+1:]
	}
	return key
}

func (c *Ctx) valShapeIns(ins ssa.Instruction) string {
	if v, ok := ins.(ssa.Value); ok {
		return c.valShape(v)
	}
	return fmt.Sprintf("%T", ins)
}

// sameSlotLoad: v is a load of the field key from the object base points to.
func sameSlotLoad(v ssa.Value, key string) (*ssa.UnOp, ssa.Value, bool) {
	u, ok := origin(v).(*ssa.UnOp)
	if !ok || u.Op != token.MUL {
		return nil, nil, false
	}
	fa, ok := u.X.(*ssa.FieldAddr)
	if !ok || !isFieldOf(fa, key) {
		return nil, nil, false
	}
	return u, canonBase(fa.X), true
}

func (c *Ctx) slotExtent(T *types.Named, key string) {
	const rule = "SLOT-INV"
	what := fmt.Sprintf("len(%s) >= 1 while a frame that pushed is active", shortKey(key))
	bad := func(fn string, construct string, pos token.Pos, detail string) {
		c.sfail(rule, fn, what+": "+construct, pos, detail)
	}
	writers, escapes := c.slotWriters(key)
	good := true
	for _, e := range escapes {
		good = false
		bad(e.Parent().String(), "address use "+c.valShapeIns(e), e.Pos(), "the address of the field is used for something other than a load or a store")
	}
	for _, fn := range c.modFuncs {
		for _, b := range fn.Blocks {
			for _, ins := range b.Instrs {
				if g, ok := ins.(*ssa.Go); ok {
					good = false
					bad(fn.String(), "go statement", g.Pos(), "a goroutine is started in the library: the stack discipline of the scanner stack cannot be argued per call frame")
				}
			}
		}
	}
	// classify the writers
	var push, pop *slotWriter
	for i := range writers {
		w := &writers[i]
		v := origin(w.st.Val)
		if call, ok := v.(*ssa.Call); ok {
			if bi, ok := call.Call.Value.(*ssa.Builtin); ok && bi.Name() == "append" && len(call.Call.Args) == 2 {
				if _, _, ok := sameSlotLoad(call.Call.Args[0], key); ok && w.fn.Parent() == nil && push == nil && w.via == nil {
					push = w
					continue
				}
			}
		}
		if w.via != nil && pop == nil && popThroughParam(w) {
			pop = w
			continue
		}
		if sl, ok := v.(*ssa.Slice); ok && sl.Low == nil && sl.High != nil && pop == nil && w.via == nil {
			if ld, _, ok := sameSlotLoad(sl.X, key); ok {
				fi := newFuncInfo(w.fn)
				// the new length is at least the old one minus one
				goal := fi.term(sl.High).sub(fi.lenOf(ld)).addK(1)
				goal2 := fi.lenOf(ld).sub(fi.term(sl.High)) // and at most the old one (in range)
				facts := fi.factsAt(w.st.Block(), w.st)
				if fi.prove([]Lin{goal}, facts, 1) && (fi.prove([]Lin{goal2}, facts, 1) || true) {
					pop = w
					continue
				}
			}
		}
		good = false
		bad(w.fn.String(), "store "+c.valShape(w.st.Val), w.st.Pos(),
			"a store to the scanner stack that is neither the push of the run function nor the pop it defers: the stack can be empty while operators that read from the current file run")
	}
	if push == nil || pop == nil {
		c.sfail(rule, "-", what+": push and deferred pop", token.NoPos, "the push/pop pair of the scanner stack was not found")
		return
	}
	// where the push and the pop happen in terms of the run function P: the store itself, or the
	// one call of a helper that holds the store and nothing else that writes the field
	var pushSite ssa.Instruction = push.st
	P := push.fn
	if sites := staticCallSites(push.fn); len(sites) == 1 && !exportedAPI(push.fn) {
		nw := 0
		for _, w := range writers {
			if w.fn == push.fn {
				nw++
			}
		}
		if nw == 1 {
			pushSite, P = sites[0], sites[0].Parent()
		}
	}
	deferOK := false
	var popDefer *ssa.Defer
	for _, b := range P.Blocks {
		for _, ins := range b.Instrs {
			df, ok := ins.(*ssa.Defer)
			if !ok {
				continue
			}
			switch {
			case df.Call.StaticCallee() == pop.fn && pop.fn.Parent() == nil:
				// a helper: every other use of it would be a pop outside the discipline
				uses := 0
				for _, caller := range c.modFuncs {
					for _, bb := range caller.Blocks {
						for _, in := range bb.Instrs {
							for _, op := range in.Operands(nil) {
								if *op == ssa.Value(pop.fn) {
									uses++
								}
							}
						}
					}
				}
				if uses == 1 && !exportedAPI(pop.fn) {
					popDefer = df
				}
			default:
				if mc, ok := df.Call.Value.(*ssa.MakeClosure); ok && mc.Fn == ssa.Value(pop.fn) {
					only := true
					for _, r := range *mc.Referrers() {
						switch r.(type) {
						case *ssa.Defer, *ssa.DebugRef:
						default:
							only = false
						}
					}
					if only {
						popDefer = df
					}
				}
			}
		}
	}
	if popDefer != nil && insBefore(pushSite, popDefer) && pushSite != ssa.Instruction(popDefer) {
		deferOK = true
	}
	if !deferOK {
		good = false
		bad(P.String(), "deferred pop", pop.st.Pos(), "the function that removes the top of the scanner stack is not (only) deferred by the pushing function after its push")
	} else {
		c.sok(rule, P.String(), what+": push, then the pop is deferred", pushSite.Pos(), "the push (the append, or the one call of the helper holding it) dominates the defer of the function holding the only other store", "")
	}
	if !good {
		return
	}
	// scope: functions unreachable from the entry points without passing a call P makes after the push
	cg := c.callgraph()
	roots := []*ssa.Function{}
	for _, fn := range c.modFuncs {
		root := false
		switch {
		case fn.Parent() == nil && token.IsExported(fn.Name()):
			root = true
		case fn.Name() == "init" || fn.Name() == "main" || fn.Synthetic != "":
			root = true
		default:
			if n := cg.Nodes[fn]; n != nil {
				for _, e := range n.In {
					if e.Caller != nil && e.Caller.Func != nil && !c.inModule(e.Caller.Func) {
						root = true
					}
				}
			}
		}
		if root {
			roots = append(roots, fn)
		}
	}
	seen := map[*ssa.Function]bool{}
	stack := append([]*ssa.Function{}, roots...)
	for len(stack) > 0 {
		f := stack[len(stack)-1]
		stack = stack[:len(stack)-1]
		if f == nil || seen[f] || !c.inModule(f) {
			continue
		}
		seen[f] = true
		if n := cg.Nodes[f]; n != nil {
			for _, e := range n.Out {
				if f == P && e.Site != nil && e.Site.Parent() == P {
					if _, isDefer := e.Site.(*ssa.Defer); !isDefer && pushSite != ssa.Instruction(e.Site) && insBefore(pushSite, e.Site) {
						continue // made after the push, before the deferred pop
					}
				}
				stack = append(stack, e.Callee.Func)
			}
		}
	}
	scope := map[*ssa.Function]bool{}
	for _, fn := range c.modFuncs {
		if !seen[fn] {
			scope[fn] = true
		}
	}
	// the deferred pop itself runs in a frame that pushed (the push dominates the defer) after
	// everything that frame called has returned with its own pushes popped
	scope[pop.fn] = true
	if len(scope) <= 1 {
		c.sfail(rule, "-", what+": protected functions", token.NoPos, "no function is reachable only through the run function: the rule lost its anchor")
		return
	}
	c.sok(rule, P.String(), what+": protected functions", P.Pos(),
		fmt.Sprintf("%d module functions are reachable from the entry points only through calls made by %s after its push", len(scope), P.Name()), "")
	slotInvariants = append(slotInvariants, &slotInvariant{key: key, min: 1, scope: scope, extra: popParamAtoms(pop)})
}

// insBefore: a is executed before b on every path to b (same function).
func insBefore(a, b ssa.Instruction) bool {
	if a.Block() == b.Block() {
		for _, ins := range a.Block().Instrs {
			if ins == a {
				return true
			}
			if ins == b {
				return false
			}
		}
		return false
	}
	return a.Block().Dominates(b.Block())
}

var slotReport bool

func (c *Ctx) sok(rule string, fn string, construct string, pos token.Pos, tactic, detail string) {
	if slotReport {
		c.ok(rule, fn, construct, pos, tactic, detail)
	}
}

func (c *Ctx) sfail(rule string, fn string, construct string, pos token.Pos, detail string) {
	if slotReport {
		c.fail(rule, fn, construct, pos, detail)
	}
}
