package main

import (
	"fmt"
	"go/token"
	"go/types"
	"strings"

	"golang.org/x/tools/go/ssa"
)

// C11 — operation budget, resource limits, %! start check.  Rule family A3 LIMITS.

func init() {
	register(&propCheck{
		id:    "C11",
		title: "Operation budget, resource limits and the %! start check are enforced",
		explanation: "Decides the structural clauses of C11 on the SSA form of the interpreter core: " +
			"L1 the operation counter has a single writer (old+1) whose block is the header every dispatch iteration passes, the budget test is exactly MaxOps>0 ∧ NumOps>MaxOps (decision table over all order types of the two fields), it returns the exported sentinel, and MaxOps is read nowhere else (non-interference); " +
			"L2 the sentinel is excluded from the error-handler dispatch (no counting past N+1); " +
			"L3 no path through executeOne reaches a nested self-call with a non-constant-true flag without having passed the execution-depth test-and-increment (path-sensitive search with type-switch and parameter facts), the decrement is deferred, every external caller passes the constant true except the token loop, and the eexec re-entry is refused when nested; " +
			"L4/L5 the operand-stack, dictionary-stack, procedure-nesting and handler-nesting gates dominate the corresponding growth; L6 array/string/dict sizes are bounded by constants with limitcheck; " +
			"L7 under CheckStart no path reaches the token loop without the two-byte comparison with \"%!\", the failure exit returns the sentinel unless a non-EOF read error is pending, and the flag is cleared on the pass path. " +
			"It does NOT decide that a program within budget ends in the same state as without a budget beyond non-interference of MaxOps, nor exact operation counts.",
		trusted:     []string{"go/ssa CFG and dominator tree", "path-sensitive search in /verif/psa/pathsearch.go"},
		assumptions: []string{"a Go frame of executeOne/builtins is small enough that 100 nested procedure levels (≈300 frames) fit any goroutine stack"},
		run:         runC11,
	})
}

type interpAnchors struct {
	T           *types.TypeName
	executeOne  *ssa.Function
	execScanner *ssa.Function
	load        *ssa.Function
	e           *ssa.Function
}

func (c *Ctx) interp() *interpAnchors {
	return &interpAnchors{
		T:           c.typeObj("postscript", "Interpreter"),
		executeOne:  c.method("postscript", "Interpreter", "executeOne"),
		execScanner: c.method("postscript", "Interpreter", "executeScanner"),
		load:        c.method("postscript", "Interpreter", "load"),
		e:           c.method("postscript", "Interpreter", "e"),
	}
}

// errNameOf: the PostScript error name of an error value built by intp.e(name, …)
// or &postScriptError{name, …}; "" if it is not such a value.
func (c *Ctx) errNameOf(v ssa.Value) string {
	v = origin(v)
	if mi, ok := v.(*ssa.MakeInterface); ok {
		v = origin(mi.X)
	}
	if g := globalLoad(v); g != nil {
		// an error value allocated once and kept in a package-level variable that nothing else is
		// ever assigned to (ext_y3.go): the value the initialiser stores
		if iv := c.globalOnlyValue(g); iv != nil {
			if _, again := origin(iv).(*ssa.UnOp); !again {
				return c.errNameOf(iv)
			}
		}
		return ""
	}
	switch x := v.(type) {
	case *ssa.Call:
		sc := x.Common().StaticCallee()
		if c.isFn(sc, "postscript", "Interpreter", "e") && len(x.Common().Args) >= 2 {
			return c.nameConst(x.Common().Args[1])
		}
	case *ssa.Alloc:
		// &postScriptError{tp, msg}: find the store to field tp
		for _, r := range *x.Referrers() {
			fa, ok := r.(*ssa.FieldAddr)
			if !ok || fa.Field != 0 {
				continue
			}
			for _, rr := range *fa.Referrers() {
				if st, ok := rr.(*ssa.Store); ok {
					return c.nameConst(st.Val)
				}
			}
		}
	}
	return ""
}

// nameConst resolves a Name value: a constant, or the initial value of a
// package-level eXxx variable.
func (c *Ctx) nameConst(v ssa.Value) string {
	v = origin(v)
	if s, ok := constString(v); ok {
		return s
	}
	if conv, ok := v.(*ssa.Convert); ok {
		if s, ok := constString(conv.X); ok {
			return s
		}
	}
	if g := globalLoad(v); g != nil {
		return c.globalInit(g)
	}
	return ""
}

// globalInit returns the constant string a package-level variable is
// initialised with (from the package initialiser).
func (c *Ctx) globalInit(g *ssa.Global) string {
	init := g.Pkg.Func("init")
	res := ""
	eachInstr(init, func(ins ssa.Instruction) {
		if st, ok := ins.(*ssa.Store); ok && st.Addr == g {
			v := st.Val
			if cv, ok := v.(*ssa.Convert); ok {
				v = cv.X
			}
			if ct, ok := v.(*ssa.ChangeType); ok {
				v = ct.X
			}
			if s, ok := constString(v); ok {
				res = s
			}
		}
	})
	return res
}

// returnsErrName: block b ends in a return of a PostScript error with that name.
func (c *Ctx) blockReturnsErr(b *ssa.BasicBlock) string {
	if len(b.Instrs) == 0 {
		return ""
	}
	r, ok := b.Instrs[len(b.Instrs)-1].(*ssa.Return)
	if !ok || len(r.Results) == 0 {
		return ""
	}
	for _, v := range retValues(r, len(r.Results)-1) {
		if n := c.errNameOf(v); n != "" {
			return n
		}
	}
	return ""
}

func runC11(c *Ctx) {
	ia := c.interp()
	fn := ia.executeOne
	fnName := c.fname(fn)
	isField := func(name string) func(ssa.Value) bool {
		return func(v ssa.Value) bool { return isFieldLoad(v, ia.T, name) }
	}

	// ---------------- L1: budget gate
	var numOpsStores []*ssa.Store
	var maxOpsReads []ssa.Instruction
	var maxOpsStores []*ssa.Store
	for _, f := range c.modFuncs {
		eachInstr(f, func(ins ssa.Instruction) {
			switch ins := ins.(type) {
			case *ssa.Store:
				if isFieldAddr(ins.Addr, ia.T, "NumOps") {
					numOpsStores = append(numOpsStores, ins)
				}
				if isFieldAddr(ins.Addr, ia.T, "MaxOps") {
					maxOpsStores = append(maxOpsStores, ins)
				}
			case *ssa.UnOp:
				if ins.Op == token.MUL && isFieldAddr(ins.X, ia.T, "MaxOps") {
					maxOpsReads = append(maxOpsReads, ins)
				}
			}
		})
	}
	// the interpreter core: executeOne and the functions it is split into (ext_e.go); the counter may
	// also live in a helper of the core that counts on every path and is called by the core only: a
	// call of that helper is then the counter (opCounter, ext_x6.go)
	core := c.execCoreOf(fn)
	oc := c.opCounter(ia)
	var gate *ssa.BasicBlock
	gf := fn // the function that holds the counter
	if st := oc.home(); st != nil {
		gf = st.Parent()
		ok := false
		if bo, isB := st.Val.(*ssa.BinOp); isB && bo.Op == token.ADD {
			if k, isC := constInt(bo.Y); isC && k == 1 && isFieldLoad(bo.X, ia.T, "NumOps") {
				ok = true
			}
		}
		c.check(ok, "L1-COUNTER", fnName, "NumOps = NumOps + 1", st.Pos(), "single writer, increment by one", "the only store to Interpreter.NumOps is not `old + 1`")
		gate = st.Block()
	} else {
		var where []string
		for _, s := range numOpsStores {
			where = append(where, c.fname(s.Parent())+" at "+c.pos(s.Pos()))
		}
		c.fail("L1-COUNTER", fnName, "single writer of NumOps", fn.Pos(), fmt.Sprintf("Interpreter.NumOps must be written exactly once, in executeOne (or a function executeOne is split into, or a helper of these that counts on every path and has no other callers); found %d stores: %s", len(numOpsStores), strings.Join(where, ", ")))
	}
	// non-interference: MaxOps is read only by the budget test: in the functions in which the decision
	// table of the gate (below) consulted it
	gateReads := map[*ssa.Function]bool{gf: true}
	noninterference := func() {
		var foreign []string
		for _, r := range maxOpsReads {
			if !gateReads[r.Parent()] {
				foreign = append(foreign, c.fname(r.Parent())+" at "+c.pos(r.Pos()))
			}
		}
		c.check(len(foreign) == 0 && len(maxOpsReads) > 0, "L1-NONINTERFERENCE", fnName, "MaxOps read only by the budget gate", fn.Pos(),
			fmt.Sprintf("%d reads, all in the function of the budget test", len(maxOpsReads)), "Interpreter.MaxOps is read outside the budget gate ("+strings.Join(foreign, ", ")+"): the budget can then influence results other than by stopping the run")
	}
	if gate == nil {
		noninterference()
	}
	for _, s := range maxOpsStores {
		k, isC := constInt(s.Val)
		c.check(isC && k > 0, "L1-BUDGETSET", c.fname(s.Parent()), "MaxOps = positive constant", s.Pos(), fmt.Sprintf("MaxOps = %d", k), "a library reader sets MaxOps to a value that is not a positive constant, so it may run without a budget")
	}

	if gate != nil {
		// decision table of the gate over all order types of (MaxOps, NumOps)
		st := numOpsStores[0]
		bad := ""
		cells := 0
		for m := int64(-2); m <= 4; m++ {
			for n := int64(-2); n <= 5; n++ {
				cells++
				env := func(v ssa.Value) (int64, bool) {
					v = origin(v)
					if isFieldLoad(v, ia.T, "MaxOps") {
						if ld, ok := v.(*ssa.UnOp); ok {
							gateReads[ld.Parent()] = true
						}
						return m, true
					}
					if isFieldLoad(v, ia.T, "NumOps") {
						if ld, ok := v.(*ssa.UnOp); ok && (ld.Parent() == st.Parent() && dominatesInstr(st, ld) || ld.Parent() != st.Parent() && oc.afterCount(ld)) {
							return n, true
						}
						return n - 1, true
					}
					return 0, false
				}
				// the walk starts at the counter and follows the result of a counting helper into its callers
				gw := &gateWalker{oc: oc, sentinel: c.spkg("postscript").Var("ErrExecutionLimitExceeded"), env: env, bound: map[ssa.Value]gateVal{}}
				out := gw.walk(gate, 0)
				want := "continue"
				if m > 0 && n > m {
					want = "sentinel"
				}
				if out != want && bad == "" {
					bad = fmt.Sprintf("with MaxOps=%d and NumOps=%d after the increment the gate %ss, expected %s", m, n, out, want)
				}
			}
		}
		c.check(bad == "", "L1-GATE", fnName, "budget test ≡ MaxOps>0 ∧ NumOps>MaxOps → ErrExecutionLimitExceeded", st.Pos(),
			fmt.Sprintf("decision table over %d (MaxOps,NumOps) cells", cells), "the budget test is not `MaxOps > 0 && NumOps > MaxOps → return ErrExecutionLimitExceeded`: "+bad)
		noninterference()

		// placement: every dispatch (dynamic builtin call, load) in a member of the core is executed
		// only after the gate: dominated by it in the gate's own function, elsewhere in a function that is
		// only entered after the gate; every cycle of a member's CFG that avoids the gate block contains a
		// call of a member
		isGate := oc.marked
		var disp []ssa.Instruction
		for _, h := range core.funcs {
			eachInstr(h, func(ins ssa.Instruction) {
				call, ok := ins.(ssa.CallInstruction)
				if !ok {
					return
				}
				com := call.Common()
				if com.IsInvoke() {
					return
				}
				if _, isDefer := ins.(*ssa.Defer); isDefer {
					return
				}
				if com.StaticCallee() == nil {
					if _, isB := com.Value.(*ssa.Builtin); !isB {
						disp = append(disp, ins)
					}
				} else if com.StaticCallee() == ia.load {
					disp = append(disp, ins)
				} else if g := com.StaticCallee(); !core.in[g] && c.containsDispatch(g, ia, map[*ssa.Function]bool{}, core.in) {
					// the dispatch was moved into a helper: the call of the helper is the dispatch site
					disp = append(disp, ins)
				}
			})
		}
		nd := 0
		for _, d := range disp {
			if !oc.siteAfter(d) {
				nd++
				c.fail("L1-PLACEMENT", fnName, "budget gate dominates dispatch", d.Pos(), "an operator can be dispatched ("+c.pos(d.Pos())+") on a path that does not pass the operation counter and budget test")
			}
		}
		if nd == 0 {
			c.check(len(disp) >= 2, "L1-PLACEMENT", fnName, "budget gate dominates dispatch", st.Pos(), fmt.Sprintf("%d dispatch sites dominated", len(disp)), "no dispatch site found in executeOne")
		}
		var cyc []int
		cycIn := fn
		for _, h := range core.funcs {
			if cy := cycleAvoiding(h, func(b *ssa.BasicBlock) bool { return isGate(b) || core.callsMember(b) }); cy != nil && cyc == nil {
				cyc, cycIn = cy, h
			}
		}
		c.check(cyc == nil, "L1-CYCLE", fnName, "every dispatch cycle passes the budget gate", st.Pos(), "no CFG cycle avoids both the gate and a nested executeOne call",
			c.fname(cycIn)+" contains a loop (blocks "+pathString(cyc)+") that neither passes the operation counter nor calls executeOne: operations can be executed without being counted")
	}

	// ---------------- L2: the sentinel never re-enters the interpreter
	sentinel := c.spkg("postscript").Var("ErrExecutionLimitExceeded")
	if sentinel == nil {
		abort("anchor: ErrExecutionLimitExceeded not found")
	}
	peT := c.typeObj("postscript", "postScriptError")
	sentinelIsPSE := pointsTo(sentinel.Type().(*types.Pointer).Elem(), peT)
	var handlerCalls []ssa.CallInstruction
	// the handler dispatch may live in executeOne itself or in a helper of it: every call of
	// executeOne in the module whose object comes from a lookup in ErrorDict is one
	handlerHosts := []*ssa.Function{fn}
	for _, f := range c.modFuncs {
		if f != fn {
			handlerHosts = append(handlerHosts, f)
		}
	}
	for _, host := range handlerHosts {
		for _, call := range staticCalls(host, fn) {
			// handler call: the object comes from a lookup in ErrorDict
			arg := origin(call.Common().Args[1])
			if ex, ok := arg.(*ssa.Extract); ok {
				if lk, ok := ex.Tuple.(*ssa.Lookup); ok && isFieldLoad(lk.X, ia.T, "ErrorDict") {
					handlerCalls = append(handlerCalls, call)
				}
			}
			if lk, ok := arg.(*ssa.Lookup); ok && isFieldLoad(lk.X, ia.T, "ErrorDict") {
				handlerCalls = append(handlerCalls, call)
			}
		}
	}
	if len(handlerCalls) == 0 {
		c.fail("L2-SENTINEL", fnName, "error-handler dispatch", fn.Pos(), "the error-handler dispatch (lookup in ErrorDict followed by executeOne) was not found")
	}
	for _, hc := range handlerCalls {
		fnName := c.fname(hc.Parent())
		excluded := !sentinelIsPSE
		why := "the sentinel is not a *postScriptError, the handler dispatch cannot match it"
		for _, cd := range domConds(hc.Block()) {
			m, ok := asCmp(cd)
			if !ok {
				continue
			}
			if (globalLoad(m.x) == sentinel || globalLoad(m.y) == sentinel) && m.op == token.NEQ {
				excluded = true
				why = "dominated by `err != ErrExecutionLimitExceeded`"
			}
		}
		if !excluded {
			// the test may stand at the call of the helper that holds the dispatch (ext_y3.go)
			if okx, w := c.sentinelExcludedAt(hc.Block(), sentinel, nil, 0); okx {
				excluded, why = true, w
			}
		}
		c.check(excluded, "L2-SENTINEL", fnName, "budget error excluded from error-handler dispatch", hc.Pos(), why,
			"ErrExecutionLimitExceeded is a *postScriptError and reaches the error-handler dispatch: every builtin level being unwound runs the `interrupt` handler through executeOne, which increments NumOps again (counts past N+1)")
		// L8: handler nesting
		k, ok := upperBoundConst(domConds(hc.Block()), func(v ssa.Value) bool {
			return lenOfField(v, ia.T, c.fld("intp.errors")) || handlerDepthCounter(v, ia.T, hc)
		})
		c.check(ok && k < 16, "L8-HANDLERNEST", fnName, "handler nesting bounded", hc.Pos(), fmt.Sprintf("len(errors) <= %d dominates the handler call", k),
			"the nested error-handler invocation is not guarded by a constant bound on len(intp.errors)")
	}

	// ---------------- L3: execution depth gate
	var depthStores []*ssa.Store
	for _, h := range core.funcs {
		eachInstr(h, func(ins ssa.Instruction) {
			if st, ok := ins.(*ssa.Store); ok && isFieldAddr(st.Addr, ia.T, c.fld("intp.execDepth")) {
				depthStores = append(depthStores, st)
			}
		})
	}
	var depthGate *ssa.BasicBlock
	var depthStore *ssa.Store
	for _, st := range depthStores {
		bo, ok := st.Val.(*ssa.BinOp)
		if !ok || bo.Op != token.ADD {
			continue
		}
		k, ok := upperBoundConst(domConds(st.Block()), isField(c.fld("intp.execDepth")))
		hasDefer := false
		for _, ins := range st.Block().Instrs {
			if d, ok := ins.(*ssa.Defer); ok {
				for _, cl := range closuresOf(d.Call.Value) {
					eachInstr(cl, func(i2 ssa.Instruction) {
						if s2, ok := i2.(*ssa.Store); ok && isFieldAddr(s2.Addr, ia.T, c.fld("intp.execDepth")) {
							if b2, ok := s2.Val.(*ssa.BinOp); ok && b2.Op == token.SUB {
								hasDefer = true
							}
						}
					})
				}
			}
		}
		if ok && k < 1000 && hasDefer {
			depthGate, depthStore = st.Block(), st
			c.ok("L3-GATE", fnName, "depth test-and-increment with deferred decrement", st.Pos(), fmt.Sprintf("execStackDepth <= %d before increment; decrement deferred", k), "")
		} else {
			c.fail("L3-GATE", fnName, "depth test-and-increment with deferred decrement", st.Pos(), fmt.Sprintf("the increment of execStackDepth is not guarded by a constant limit (found=%v, limit=%d) or its decrement is not deferred (%v)", ok, k, hasDefer))
		}
	}
	if depthGate == nil {
		c.fail("L3-GATE", fnName, "depth gate present", fn.Pos(), "no guarded increment of Interpreter.execStackDepth found in executeOne")
	} else {
		// One invocation of executeOne may span several Go functions (the members of the core).  Go
		// recursion is bounded by the depth gate if every call cycle among them passes through
		// executeOne, and every nested call of executeOne either passes the constant true (the callee
		// runs the gate itself) or is reached only after the gate was passed since the enclosing
		// invocation began.  The second clause is a path-sensitive search per member, started with what is
		// known about the member's parameters when it is entered with the gate not yet passed.
		if bad := core.cycleAvoidingEntry(); bad != nil {
			c.fail("L3-SELFCALL", fnName, "every call cycle of the interpreter core passes executeOne", bad.Pos(), c.fname(bad)+" lies on a call cycle that does not pass executeOne: its Go recursion is not bounded by the execution-depth gate")
		}
		isDepthGate := func(b *ssa.BasicBlock) bool { return b == depthGate }
		memo := map[*ssa.Function][]entryFacts{}
		nself := 0
		for _, h := range core.funcs {
			for _, call := range staticCalls(h, fn) {
				if _, isDefer := call.(*ssa.Defer); isDefer {
					continue
				}
				hName := c.fname(h)
				flag := call.Common().Args[2]
				if b, ok := constBool(flag); ok && b {
					c.ok("L3-SELFCALL", hName, "nested call passes execProc=true (gated in callee)", call.Pos(), "constant true", "")
					nself++
					continue
				}
				nself++
				target := call.Block()
				witness := ""
				for _, e := range core.unmarkedEntries(h, isDepthGate, depthStore, memo, map[*ssa.Function]bool{}) {
					q := &pathQuery{fn: h, initBools: e.bools, initTyps: e.typs, isTarget: func(b *ssa.BasicBlock) bool { return b == target }, avoid: isDepthGate}
					if q.search() {
						witness = pathString(q.witness)
						break
					}
				}
				if witness != "" {
					c.fail("L3-SELFCALL", hName, "nested call with execProc≠true only from a frame that passed the depth gate", call.Pos(),
						"executeOne can reach the nested call at "+c.pos(call.Pos())+" without having passed the execution-depth test (block path "+witness+" in "+hName+"): a procedure entered this way recurses in Go without limit (e.g. `/f { f 1 } def f`)")
				} else {
					c.ok("L3-SELFCALL", hName, "nested call with execProc≠true only from a frame that passed the depth gate", call.Pos(), "path-sensitive search: no gate-avoiding path", "")
				}
			}
		}
		c.check(nself >= 2, "L3-SELFCALL", fnName, "self-calls found", fn.Pos(), fmt.Sprint(nself), "expected nested executeOne calls in executeOne")
	}
	// external callers
	for _, f := range c.modFuncs {
		if core.in[f] {
			continue // nested calls of the core: L3-SELFCALL
		}
		for _, call := range staticCalls(f, fn) {
			flag := call.Common().Args[2]
			b, isC := constBool(flag)
			switch {
			case isC && b:
				c.ok("L3-CALLER", c.fname(f), "executeOne(…, true)", call.Pos(), "constant true: gated", "")
			case isC && !b && len(call.Common().Args) >= 2 && c.tokenFromScanner(call.Common().Args[1]):
				// the token loop, whichever function holds it: the object is the token the scanner delivered;
				// every way into that function is examined by L3-EEXEC
				c.ok("L3-CALLER", c.fname(f), "executeOne(token, false) in the token loop", call.Pos(), "token loop; re-entry bounded by L3-EEXEC", "")
			default:
				c.fail("L3-CALLER", c.fname(f), "executeOne flag", call.Pos(), "executeOne is called with a flag that is not the constant true outside the token loop: the callee does not pass the execution-depth gate")
			}
		}
	}
	c.floor("L3-CALLER", 3)
	c.eexecNesting(ia)

	// ---------------- L4: operand stack gate dominates dispatch
	stackTest := c.stackTests(core, ia)
	if gate != nil {
		// the blocks of the core in which the operation is counted: the counter's own block, or the
		// calls of the helper that holds it
		gblocks := []*ssa.BasicBlock{gate}
		if !core.in[gf] {
			gblocks = oc.coreGateBlocks()
		}
		k, ok := int64(0), len(gblocks) > 0
		for _, gb := range gblocks {
			kk, okk := upperBoundConst(domConds(gb), func(v ssa.Value) bool { return lenOfField(v, ia.T, "Stack") })
			ok = ok && okk
			if kk > k {
				k = kk
			}
		}
		if !ok && len(stackTest) > 0 && core.enteredOnlyAfter(gf, func(b *ssa.BasicBlock) bool { _, is := stackTest[b]; return is }, map[*ssa.Function]bool{}) {
			// the test was passed before the function of the dispatch was entered
			ok = true
			for _, kk := range stackTest {
				if kk > k {
					k = kk
				}
			}
		}
		c.check(ok && k <= 100000, "L4-OPSTACK", fnName, "operand stack limit dominates dispatch", gate.Instrs[0].Pos(), fmt.Sprintf("len(Stack) <= %d on entry to the dispatch", k),
			"the dispatch is not dominated by a constant bound on len(intp.Stack)")
		// and the failing edge reports stackoverflow
		found := false
		for _, h := range core.funcs {
			for _, b := range h.Blocks {
				if c.blockReturnsErr(b) == "stackoverflow" {
					found = true
				}
			}
		}
		c.check(found, "L4-OPSTACK", fnName, "stackoverflow error", fn.Pos(), "returns stackoverflow", "no exit of executeOne reports stackoverflow")
	}

	// ---------------- L1/L4: no successful step bypasses the gates
	c.uncountedSuccess(ia, gate, core, stackTest)

	// ---------------- L5: growth of the interpreter's own stacks is gated
	c.stackGrowth(ia)

	// ---------------- L6: size gates of array/string/dict
	c.sizeGates(ia)

	// ---------------- L7: start check
	c.startCheck(ia)

	// ---------------- L2 (continued): no caller of a function that can raise the budget error
	// turns that error into success
	c.noSwallowRule()
}

// uncountedSuccess: an invocation of executeOne that ends successfully (returns nil) has either
// executed an object — then it must have passed the operation counter with its budget test and the
// operand-stack limit test — or it has only collected the object into a procedure body under
// construction (it wrote the list of open procedure bodies, or found it non-empty).  A path from
// the entry to a `return nil` that does neither is an execution step that is not counted (a loop of
// such steps never exhausts the budget) or not limited (a loop that pushes grows the stack without
// bound).  Decided by a path-sensitive search on the CFG of executeOne.
func (c *Ctx) uncountedSuccess(ia *interpAnchors, gate *ssa.BasicBlock, core *execCore, stackTest map[*ssa.BasicBlock]int64) {
	fn := ia.executeOne
	fnName := c.fname(fn)
	returnsNil := func(b *ssa.BasicBlock) bool {
		ei := errIndex(b.Parent().Signature)
		if len(b.Instrs) == 0 || ei < 0 {
			return false
		}
		r, ok := b.Instrs[len(b.Instrs)-1].(*ssa.Return)
		if !ok {
			return false
		}
		for _, v := range retValues(r, ei) {
			if isNilConst(v) {
				return true
			}
		}
		return false
	}
	procStart := c.fld("intp.procStart")
	collects := func(b *ssa.BasicBlock) bool {
		for _, ins := range b.Instrs {
			if writesField(ins, ia.T, procStart) { // here, or in a method of the field's type (ext_x5.go)
				return true
			}
		}
		k, ok := lowerBoundConst(domConds(b), func(v ssa.Value) bool { return lenOfField(v, ia.T, procStart) })
		return ok && k >= 1
	}
	// Every member of the core is examined: a successful return (the constant nil; a member that
	// returns the result of another member hands on what that one decided) must have passed the mark
	// inside the member, unless the member is only ever entered after the mark was passed.
	if gate != nil {
		isGate := c.opCounter(ia).marked
		avoid := func(b *ssa.BasicBlock) bool { return isGate(b) || collects(b) }
		bad := false
		for _, h := range core.funcs {
			if core.enteredOnlyAfter(h, isGate, map[*ssa.Function]bool{}) {
				continue
			}
			q := &pathQuery{fn: h, isTarget: func(b *ssa.BasicBlock) bool { return returnsNil(b) && !avoid(b) }, avoid: avoid}
			if q.search() {
				bad = true
				last := h.Blocks[q.witness[len(q.witness)-1]]
				c.fail("L1-COUNTED", fnName, "every executed object is counted", firstPos(last),
					"executeOne can return successfully at "+c.pos(firstPos(last))+" (block path "+pathString(q.witness)+" in "+c.fname(h)+") without having passed the operation counter and budget test and without having collected the object into an open procedure body: such a step is executed but not counted, a loop of them never reaches the budget")
			}
		}
		if !bad {
			c.ok("L1-COUNTED", fnName, "every executed object is counted", fn.Pos(), "path-sensitive search: every successful return passed the counter or only collected the object into an open procedure body", "")
		}
	}
	if len(stackTest) == 0 {
		c.fail("L4-OPSTACK", fnName, "every successful step passes the operand stack limit", fn.Pos(), "no test of len(Stack) with a stackoverflow exit found in executeOne")
		return
	}
	avoid := func(b *ssa.BasicBlock) bool { _, is := stackTest[b]; return is }
	bad := false
	for _, h := range core.funcs {
		if core.enteredOnlyAfter(h, avoid, map[*ssa.Function]bool{}) {
			continue
		}
		q := &pathQuery{fn: h, isTarget: func(b *ssa.BasicBlock) bool { return returnsNil(b) && !avoid(b) }, avoid: avoid}
		if q.search() {
			bad = true
			last := h.Blocks[q.witness[len(q.witness)-1]]
			c.fail("L4-OPSTACK", fnName, "every successful step passes the operand stack limit", firstPos(last),
				"executeOne can return successfully at "+c.pos(firstPos(last))+" (block path "+pathString(q.witness)+" in "+c.fname(h)+") without having tested the operand stack depth: a loop of such steps that pushes grows the operand stack without bound")
		}
	}
	if !bad {
		c.ok("L4-OPSTACK", fnName, "every successful step passes the operand stack limit", fn.Pos(), "path-sensitive search: every successful return passed the len(Stack) test", "")
	}
}

// stackTests: the operand-stack limit tests of the core: an If on len(Stack) against a constant one
// of whose edges reports stackoverflow; with the bound that holds on the other edge.
func (c *Ctx) stackTests(core *execCore, ia *interpAnchors) map[*ssa.BasicBlock]int64 {
	out := map[*ssa.BasicBlock]int64{}
	for _, h := range core.funcs {
		for _, b := range h.Blocks {
			ifi, ok := b.Instrs[len(b.Instrs)-1].(*ssa.If)
			if !ok {
				continue
			}
			m, ok := asCmp(cond{ifi.Cond, true, b})
			if !ok || !lenOfField(m.x, ia.T, "Stack") && !lenOfField(m.y, ia.T, "Stack") {
				continue
			}
			for i, s := range b.Succs {
				if c.blockReturnsErr(s) == "stackoverflow" {
					k, _ := upperBoundConst([]cond{{ifi.Cond, i != 0, b}}, func(v ssa.Value) bool { return lenOfField(v, ia.T, "Stack") })
					out[b] = k
				}
			}
		}
	}
	return out
}

// containsDispatch: g (or a module function it calls statically, other than executeOne itself)
// calls an operator through a function value of the operator signature func(*Interpreter) error,
// or looks a name up with load: calling g is then a dispatch.
func (c *Ctx) containsDispatch(g *ssa.Function, ia *interpAnchors, seen map[*ssa.Function]bool, member map[*ssa.Function]bool) bool {
	if g == nil || seen[g] || g == ia.executeOne || member[g] || !c.inModule(g) || len(g.Blocks) == 0 {
		return false
	}
	seen[g] = true
	found := false
	eachInstr(g, func(ins ssa.Instruction) {
		call, ok := ins.(ssa.CallInstruction)
		if !ok || found {
			return
		}
		com := call.Common()
		if com.IsInvoke() {
			return
		}
		if sc := com.StaticCallee(); sc != nil {
			if sc == ia.load || c.containsDispatch(sc, ia, seen, member) {
				found = true
			}
			return
		}
		if _, isB := com.Value.(*ssa.Builtin); isB {
			return
		}
		sig := com.Signature()
		if sig.Params().Len() == 1 && pointsTo(sig.Params().At(0).Type(), ia.T) && errIndex(sig) == 0 && sig.Results().Len() == 1 {
			found = true
		}
	})
	return found
}

func evalInt(v ssa.Value, env func(ssa.Value) (int64, bool)) (int64, bool) {
	if k, ok := constInt(v); ok {
		return k, true
	}
	if x, ok := env(v); ok {
		return x, true
	}
	switch v := v.(type) {
	case *ssa.BinOp:
		a, ok1 := evalInt(v.X, env)
		b, ok2 := evalInt(v.Y, env)
		if !ok1 || !ok2 {
			return 0, false
		}
		switch v.Op {
		case token.ADD:
			return a + b, true
		case token.SUB:
			return a - b, true
		case token.MUL:
			return a * b, true
		}
	case *ssa.Convert:
		return evalInt(v.X, env)
	case *ssa.ChangeType:
		return evalInt(v.X, env)
	}
	return 0, false
}

func evalCond(v ssa.Value, env func(ssa.Value) (int64, bool)) (bool, bool) {
	switch v := v.(type) {
	case *ssa.UnOp:
		if v.Op == token.NOT {
			b, ok := evalCond(v.X, env)
			return !b, ok
		}
	case *ssa.Const:
		return constBool(v)
	case *ssa.BinOp:
		a, ok1 := evalInt(v.X, env)
		b, ok2 := evalInt(v.Y, env)
		if !ok1 || !ok2 {
			return false, false
		}
		switch v.Op {
		case token.LSS:
			return a < b, true
		case token.LEQ:
			return a <= b, true
		case token.GTR:
			return a > b, true
		case token.GEQ:
			return a >= b, true
		case token.EQL:
			return a == b, true
		case token.NEQ:
			return a != b, true
		}
	}
	return false, false
}

func blockCalls(b *ssa.BasicBlock, callee *ssa.Function) []ssa.CallInstruction {
	var out []ssa.CallInstruction
	for _, ins := range b.Instrs {
		if call, ok := ins.(ssa.CallInstruction); ok && call.Common().StaticCallee() == callee {
			if _, isDefer := ins.(*ssa.Defer); !isDefer {
				out = append(out, call)
			}
		}
	}
	return out
}

// cycleAvoiding returns a cycle of the CFG none of whose blocks satisfies
// cut, or nil.
func cycleAvoiding(fn *ssa.Function, cut func(*ssa.BasicBlock) bool) []int {
	color := map[*ssa.BasicBlock]int{}
	var stack []int
	var found []int
	var dfs func(b *ssa.BasicBlock) bool
	dfs = func(b *ssa.BasicBlock) bool {
		color[b] = 1
		stack = append(stack, b.Index)
		for _, s := range b.Succs {
			if cut(s) {
				continue
			}
			if color[s] == 1 {
				// cycle
				for i, x := range stack {
					if x == s.Index {
						found = append([]int{}, stack[i:]...)
						found = append(found, s.Index)
						return true
					}
				}
			}
			if color[s] == 0 && dfs(s) {
				return true
			}
		}
		stack = stack[:len(stack)-1]
		color[b] = 2
		return false
	}
	for _, b := range fn.Blocks {
		if color[b] == 0 && !cut(b) {
			if dfs(b) {
				return found
			}
		}
	}
	return nil
}

// eexecNesting: the only ungated re-entry of the token loop is the eexec
// operator; it must be refused when already active.  The token loop is the function that hands the
// scanner's tokens to executeOne (and executeScanner); every chain of calls into it is followed
// back through plain helpers until it reaches the API entry point or a place that is only reached
// after a successful BeginEexec (tokenLoopEntries, ext_x6.go).
func (c *Ctx) eexecNesting(ia *interpAnchors) {
	ch := c.tokenLoopEntries(ia)
	for _, w := range ch.bad {
		c.fail("L3-EEXEC", c.fname(w), "token loop re-entry", w.Pos(), "the token loop lives in (or is entered through) a function whose callers are not known: an operator, a function value or an exported function")
	}
	begin := c.method("postscript", "scanner", "BeginEexec")
	behindBegin := false
	for _, e := range ch.entries {
		f := e.site.Parent()
		switch e.kind {
		case "api":
			c.ok("L3-EEXEC", c.fname(f), "token loop entered from the API", f.Pos(), "API entry point", "")
		case "begin":
			behindBegin = true
			c.ok("L3-EEXEC", c.fname(f), "re-entry only after BeginEexec succeeded", e.site.Pos(), "dominated by BeginEexec() == nil", "")
		default:
			c.fail("L3-EEXEC", c.fname(f), "token loop re-entry", e.site.Pos(), e.detail)
		}
	}
	if behindBegin {
		// BeginEexec refuses when active
		sT := c.typeObj("postscript", "scanner")
		refuses := false
		entry := begin.Blocks[0]
		if ifi, ok := entry.Instrs[len(entry.Instrs)-1].(*ssa.If); ok {
			if m, ok := asCmp(cond{ifi.Cond, true, entry}); ok && m.op == token.NEQ && isFieldLoad(m.x, sT, c.fld("scanner.eexec")) {
				if k, isC := constInt(m.y); isC && k == 0 {
					if r, ok := entry.Succs[0].Instrs[len(entry.Succs[0].Instrs)-1].(*ssa.Return); ok && !isNilConst(r.Results[0]) {
						refuses = true
					}
				}
			}
		}
		setsActive := false
		eachInstr(begin, func(ins ssa.Instruction) {
			if st, ok := ins.(*ssa.Store); ok && isFieldAddr(st.Addr, sT, c.fld("scanner.eexec")) {
				// the value stored is a non-zero constant, or a choice between non-zero constants
				if ks, isC := constChoices(st.Val, 0); isC && len(ks) > 0 {
					nz := true
					for _, k := range ks {
						nz = nz && k != 0
					}
					if nz {
						setsActive = true
					}
				}
			}
		})
		c.check(refuses && setsActive, "L3-EEXEC", "postscript.(*scanner).BeginEexec", "nested eexec refused", begin.Pos(), "first test: eexec != 0 → error; sets eexec non-zero",
			"BeginEexec does not refuse an already active eexec section (or does not mark the section active): `currentfile eexec` inside an encrypted section recurses without limit")
	}
}

// stackGrowth: every growing store to DictStack / procStart / errors /
// scanners is guarded.
func (c *Ctx) stackGrowth(ia *interpAnchors) {
	newInterp := c.fn("postscript", "NewInterpreter")
	reg := c.registry()
	for _, f := range c.modFuncs {
		if f == newInterp {
			continue
		}
		eachInstr(f, func(ins ssa.Instruction) {
			st, ok := ins.(*ssa.Store)
			if !ok {
				return
			}
			for _, field := range []string{"DictStack", "procStart", "errors"} {
				if !isFieldAddr(st.Addr, ia.T, field) {
					continue
				}
				call, isCall := st.Val.(*ssa.Call)
				if !isCall {
					continue // re-slice: shrinking or restoring
				}
				if b, ok := call.Common().Value.(*ssa.Builtin); !ok || b.Name() != "append" {
					c.fail("L5-GROWTH", c.fname(f), "store to "+field, st.Pos(), "Interpreter."+field+" is assigned the result of a call")
					continue
				}
				k, bounded := upperBoundConst(domConds(st.Block()), func(v ssa.Value) bool { return lenOfField(v, ia.T, field) })
				if bounded && k <= 10000 {
					c.ok("L5-GROWTH", c.fname(f), "append to "+field, st.Pos(), fmt.Sprintf("dominated by len(%s) <= %d", field, k), "")
					continue
				}
				if e := reg.byFn[f]; e != nil && e.key == "eexec" && field == "DictStack" {
					// bounded by the nesting refusal (L3-EEXEC) and restored afterwards
					restored := false
					eachInstr(f, func(i2 ssa.Instruction) {
						if s2, ok := i2.(*ssa.Store); ok && s2 != st && isFieldAddr(s2.Addr, ia.T, "DictStack") {
							if sl, ok := s2.Val.(*ssa.Slice); ok && sl.High != nil {
								restored = true
							}
						}
					})
					c.check(restored, "L5-GROWTH", c.fname(f), "append to DictStack in eexec", st.Pos(), "nesting refused by BeginEexec; stack re-sliced to the saved length", "eexec pushes systemdict but never restores the dictionary stack")
					continue
				}
				c.fail("L5-GROWTH", c.fname(f), "append to "+field, st.Pos(), "Interpreter."+field+" grows here without a dominating constant bound on its length: runaway growth is not cut off")
			}
		})
	}
	c.stackGrowthVia(ia, newInterp) // growth through a method of the field's own type (ext_x5.go)
	c.floor("L5-GROWTH", 4)
	// end: never below two dictionaries
	end := reg.op("systemdict", "end")
	eachInstr(end, func(ins ssa.Instruction) {
		if st, ok := ins.(*ssa.Store); ok && isFieldAddr(st.Addr, ia.T, "DictStack") {
			k, okb := lowerBoundConst(domConds(st.Block()), func(v ssa.Value) bool { return lenOfField(v, ia.T, "DictStack") })
			c.check(okb && k >= 3, "L5-DICTMIN", c.fname(end), "end keeps systemdict and userdict", st.Pos(), fmt.Sprintf("len(DictStack) >= %d before the pop", k),
				"`end` can pop the dictionary stack below its two permanent entries")
		}
	})
	// begin reports dictstackoverflow
	begin := reg.op("systemdict", "begin")
	found := false
	for _, b := range begin.Blocks {
		if c.blockReturnsErr(b) == "dictstackoverflow" {
			found = true
		}
	}
	c.check(found, "L5-GROWTH", c.fname(begin), "dictstackoverflow error", begin.Pos(), "returns dictstackoverflow", "`begin` has no exit reporting dictstackoverflow")
}

// sizeGates: array/string/dict allocate at most a constant number of elements.
func (c *Ctx) sizeGates(ia *interpAnchors) {
	reg := c.registry()
	for _, op := range []string{"array", "string", "dict"} {
		f := reg.op("systemdict", op)
		n := 0
		eachInstr(f, func(ins ssa.Instruction) {
			var size ssa.Value
			switch ins := ins.(type) {
			case *ssa.MakeSlice:
				size = ins.Len
			case *ssa.MakeMap:
				size = ins.Reserve
			default:
				return
			}
			if size == nil {
				return
			}
			if _, isC := constInt(size); isC {
				return
			}
			n++
			src := stripConv(size)
			is := func(v ssa.Value) bool { return stripConv(v) == src }
			// the comparisons known where the allocation happens: tests written in the operator, and tests a
			// validating helper performs whose result the operator tests (ext_w3.go)
			facts := c.cmpFactsAt(ins.Block(), 2)
			ub, okU := upperBoundCmps(facts, is)
			lb, okL := lowerBoundCmps(facts, is)
			c.check(okU && okL && lb >= 0 && ub <= 1<<24, "L6-SIZE", c.fname(f), op+": allocation size bounded", ins.Pos(), fmt.Sprintf("%d <= size <= %d", lb, ub),
				fmt.Sprintf("operator %s allocates with a size that is not bounded by constants on both sides (lower %v/%d, upper %v/%d)", op, okL, lb, okU, ub))
			// the upper-bound failure reports limitcheck
			for _, ft := range facts {
				if _, up, lo, ok := boundOfCmp(ft.m, is); !ok || !up || lo {
					continue
				}
				// the other edge of this If
				other, name := c.failureOf(ft)
				c.check(name == "limitcheck", "L6-SIZE", c.fname(f), op+": oversized request → limitcheck", other.Instrs[0].Pos(), "limitcheck", "an oversized "+op+" request is reported as `"+name+"`, not limitcheck")
			}
		})
		c.check(n > 0, "L6-SIZE", c.fname(f), op+": allocation found", f.Pos(), "", "operator "+op+" no longer allocates with a run-time size; rule L6 has lost its anchor")
	}
}

func stripConv(v ssa.Value) ssa.Value {
	for {
		switch x := v.(type) {
		case *ssa.Convert:
			v = x.X
			continue
		case *ssa.ChangeType:
			v = x.X
			continue
		}
		return origin(v)
	}
}

// startCheck: rule L7.
func (c *Ctx) startCheck(ia *interpAnchors) {
	// executeScanner is evaluated on the SSA form for the cells (CheckStart set?, first two
	// bytes, pending read error): does it reach the token loop, what does it return, is the flag
	// cleared.  A helper that performs the comparison is evaluated in place.
	f := ia.execScanner
	fnName := c.fname(f)
	sT := c.typeObj("postscript", "scanner")
	errF := c.fld("scanner.err")
	type outcome struct {
		loop    bool
		ret     string
		cleared bool
		peeked  int64
		why     string
	}
	run := func(check bool, head string, pending string) outcome {
		var o outcome
		o.peeked = -1
		ev := &ssaEval{c: c, bind: map[ssa.Value]sv{}, mem: map[string]sv{}}
		// the scanner's primitives are modelled by the call hook: the look-ahead (n int) []byte and the
		// token reader () (Object, error); every other scanner method (e.g. a comparison helper built on
		// the look-ahead) is evaluated in place
		isLookAhead := func(g *ssa.Function) bool {
			if g == nil || g.Signature.Recv() == nil || !pointsTo(g.Signature.Recv().Type(), sT) {
				return false
			}
			res, par := g.Signature.Results(), g.Signature.Params()
			if res.Len() != 1 || par.Len() != 1 || res.At(0).Type().String() != "[]byte" {
				return false
			}
			b, ok := par.At(0).Type().Underlying().(*types.Basic)
			return ok && b.Info()&types.IsInteger != 0
		}
		isTokenReader := func(g *ssa.Function) bool {
			if g == nil || g.Signature.Recv() == nil || !pointsTo(g.Signature.Recv().Type(), sT) {
				return false
			}
			res, par := g.Signature.Results(), g.Signature.Params()
			return res.Len() == 2 && par.Len() == 0 && strings.HasSuffix(res.At(0).Type().String(), "Object")
		}
		ev.noInline = func(g *ssa.Function) bool {
			return isLookAhead(g) || isTokenReader(g) || g == ia.executeOne
		}
		ev.load = func(ld *ssa.UnOp, addr sv) (sv, bool) {
			a := addr.s
			switch {
			case strings.HasSuffix(a, ".CheckStart"):
				return boolV(check), true
			case strings.HasSuffix(a, "."+errF):
				switch pending {
				case "nil":
					return sv{k: svNil}, true
				case "EOF":
					return symV("EOF"), true
				}
				return symV("readError"), true
			case strings.HasPrefix(a, "global:"):
				return symV(a[strings.LastIndex(a, ".")+1:]), true
			}
			return symV("v:" + a), true
		}
		ev.oracle = func(op token.Token, x, y sv) (bool, bool) {
			if (x.k == svSym || x.k == svNil) && (y.k == svSym || y.k == svNil) {
				eq := x.String() == y.String()
				switch op {
				case token.EQL:
					return eq, true
				case token.NEQ:
					return !eq, true
				}
			}
			return false, false
		}
		ev.call = func(call ssa.CallInstruction, args []sv) (sv, bool) {
			if call == nil {
				return sv{}, false
			}
			sc := call.Common().StaticCallee()
			if sc == nil {
				return sv{}, false
			}
			switch {
			case isLookAhead(sc):
				// the look-ahead delivers at most the bytes asked for
				h := head
				if len(args) == 2 && args[1].k == svInt {
					if o.peeked < args[1].i {
						o.peeked = args[1].i
					}
					if int64(len(h)) > args[1].i && args[1].i >= 0 {
						h = h[:args[1].i]
					}
				} else {
					return sv{}, true
				}
				return sv{k: svString, s: h}, true
			case isTokenReader(sc):
				// the token loop
				o.loop = true
				return sv{k: svTuple, tup: []sv{{k: svNil}, symV("EOF")}}, true
			}
			return sv{}, false
		}
		ret := ev.runFunc(f, []sv{{k: svAddr, s: "intp"}, {k: svAddr, s: "s"}})
		o.why = ev.why
		if len(ret) == 1 {
			o.ret = ret[0].String()
		}
		for _, ef := range ev.effects {
			if ef.what == "store" && strings.HasSuffix(ef.addr, ".CheckStart") && ef.args[0].k == svBool && !ef.args[0].b {
				o.cleared = true
			}
		}
		return o
	}
	var bad []string
	note := func(format string, a ...any) { bad = append(bad, fmt.Sprintf(format, a...)) }
	// without the check the loop runs whatever the input is
	for _, head := range []string{"%!", "ab", ""} {
		if o := run(false, head, "nil"); !o.loop || o.ret != "nil" {
			note("with CheckStart unset and input %q the token loop is reached: %v, result %s %s", head, o.loop, o.ret, o.why)
		}
	}
	o := run(true, "%!", "nil")
	if !o.loop || !o.cleared || o.ret != "nil" {
		note("with CheckStart set and input %%! the token loop is reached: %v, the flag is cleared: %v, result %s %s", o.loop, o.cleared, o.ret, o.why)
	}
	c.check(o.peeked == 2, "L7-START", fnName, "two bytes peeked", f.Pos(), "look-ahead of 2 bytes", fmt.Sprintf("the start check looks at %d bytes, not exactly the first two", o.peeked))
	for _, head := range []string{"ab", "%?", "?!", "%", "", "!%"} {
		for _, pending := range []string{"nil", "EOF", "other"} {
			o := run(true, head, pending)
			want := "ErrNoPostScript"
			if pending == "other" {
				want = "readError"
			}
			if o.loop || o.ret != want || o.cleared {
				note("with CheckStart set, input %q and pending read error %s: token loop reached %v, result %s (expected %s), flag cleared %v %s", head, pending, o.loop, o.ret, want, o.cleared, o.why)
			}
		}
	}
	c.check(len(bad) == 0, "L7-START", fnName, "under CheckStart the token loop runs only after the first two bytes were %!; otherwise ErrNoPostScript (or the pending non-EOF read error); the flag is cleared once the check passed", f.Pos(), "22 cells evaluated", "start check: "+joinMax(bad, 3))
}

func (c *Ctx) startFailValue(v ssa.Value, noPS *ssa.Global, sT *types.TypeName, seen map[ssa.Value]bool) bool {
	if seen[v] {
		return true
	}
	seen[v] = true
	if isNilConst(v) {
		return false
	}
	if g := globalLoad(v); g != nil {
		return g == noPS
	}
	if isFieldLoad(v, sT, c.fld("scanner.err")) {
		return false // unconditional return of the pending error: it may be nil or io.EOF
	}
	switch x := origin(v).(type) {
	case *ssa.Phi:
		for i, e := range x.Edges {
			if isFieldLoad(e, sT, c.fld("scanner.err")) {
				// the pending read error may be returned only when it is neither nil nor io.EOF
				notNil, notEOF := false, false
				for _, cd := range edgeConds(x.Block().Preds[i], x.Block()) {
					if m, ok := asCmp(cd); ok && m.op == token.NEQ && (m.x == e || m.y == e) {
						if isNilConst(m.x) || isNilConst(m.y) {
							notNil = true
						}
						if isEOFGlobal(m.x) || isEOFGlobal(m.y) {
							notEOF = true
						}
					}
				}
				if !notNil || !notEOF {
					return false
				}
				continue
			}
			if !c.startFailValue(e, noPS, sT, seen) {
				return false
			}
		}
		return true
	case *ssa.UnOp:
		// load of a local cell: all stored values
		if al, ok := x.X.(*ssa.Alloc); ok {
			for _, r := range *al.Referrers() {
				if st, ok := r.(*ssa.Store); ok && st.Addr == al {
					if !c.startFailValue(st.Val, noPS, sT, seen) {
						return false
					}
				}
			}
			return true
		}
	}
	return false
}

// edgeConds: conditions that hold when control flows along pred→succ.
func edgeConds(pred, succ *ssa.BasicBlock) []cond {
	out := domConds(pred)
	if ifi, ok := pred.Instrs[len(pred.Instrs)-1].(*ssa.If); ok {
		if pred.Succs[0] == succ && pred.Succs[1] != succ {
			out = append(out, cond{ifi.Cond, true, pred})
		} else if pred.Succs[1] == succ && pred.Succs[0] != succ {
			out = append(out, cond{ifi.Cond, false, pred})
		}
	}
	return out
}

// handlerDepthCounter: v is the value of an unexported integer field of the interpreter that
// counts the pending error handlers: v+1 is stored into the field before the handler call hc (the
// store dominates it) and v itself is stored back after it.
func handlerDepthCounter(v ssa.Value, T *types.TypeName, hc ssa.Instruction) bool {
	v = origin(v)
	base, f, ok := fieldOf(v)
	if !ok || f.Exported() || !pointsTo(base.Type(), T) {
		return false
	}
	if bt, ok := f.Type().Underlying().(*types.Basic); !ok || bt.Info()&types.IsInteger == 0 {
		return false
	}
	var incSt *ssa.Store
	eachInstr(hc.Parent(), func(ins ssa.Instruction) {
		st, ok := ins.(*ssa.Store)
		if !ok || !isFieldAddr(st.Addr, T, f.Name()) {
			return
		}
		if bo, ok := st.Val.(*ssa.BinOp); ok && bo.Op == token.ADD && origin(bo.X) == v {
			if k, isC := constInt(bo.Y); isC && k == 1 && dominatesInstr(st, hc) {
				incSt = st
			}
		}
	})
	if incSt == nil {
		return false
	}
	// the counter is set back to v on the way on from the handler call (the store is behind the
	// increment and reachable from the call)
	reach := map[*ssa.BasicBlock]bool{}
	stack := []*ssa.BasicBlock{hc.Block()}
	for len(stack) > 0 {
		b := stack[len(stack)-1]
		stack = stack[:len(stack)-1]
		if reach[b] {
			continue
		}
		reach[b] = true
		stack = append(stack, b.Succs...)
	}
	restore := false
	eachInstr(hc.Parent(), func(ins ssa.Instruction) {
		st, ok := ins.(*ssa.Store)
		if !ok || !isFieldAddr(st.Addr, T, f.Name()) {
			return
		}
		if origin(st.Val) == v && dominatesInstr(incSt, st) && reach[st.Block()] && st != incSt {
			restore = true
		}
	})
	return restore
}
