package main

import (
	"fmt"
	"go/constant"
	"go/token"
	"go/types"
	"math/big"
	"regexp/syntax"
	"strings"

	"golang.org/x/tools/go/ssa"
)

// Additional tactics of the fact engine (DESIGN.md §3.2).

func (l Lin) subst(a string, by Lin) Lin {
	k, ok := l.coef[a]
	if !ok {
		return l
	}
	r := l.clone()
	delete(r.coef, a)
	return r.addScaled(by, k)
}

func (l Lin) mentions(a string) bool {
	_, ok := l.coef[a]
	return ok
}

var debugProve bool

type substEntry struct {
	a  string
	by Lin
}

// edgeFacts: facts holding when control flows along pred→succ.
func (fi *funcInfo) edgeFacts(pred, succ *ssa.BasicBlock) []Lin {
	facts := fi.factsAt(pred, nil)
	if ifi, ok := pred.Instrs[len(pred.Instrs)-1].(*ssa.If); ok && pred.Succs[0] != pred.Succs[1] {
		if pred.Succs[0] == succ {
			facts = append(facts, fi.condFacts(ifi.Cond, true)...)
		} else if pred.Succs[1] == succ {
			facts = append(facts, fi.condFacts(ifi.Cond, false)...)
		}
	}
	return facts
}

// prove tries plain entailment, then the extra tactics.
func (fi *funcInfo) prove(goals []Lin, factsIn []Lin, depth int) bool {
	facts, neq := splitNEQ(factsIn)
	fi.neq = neq
	all := append([]Lin{}, goals...)
	all = append(all, facts...)
	fs := append(append([]Lin{}, facts...), fi.rangeFacts(all...)...)
	applySubsts := func() {
		for _, sb := range fi.substs {
			for i := range fs {
				fs[i] = fs[i].subst(sb.a, sb.by)
			}
		}
	}
	// substitutions of enclosing case splits apply to generated facts as well;
	// they can introduce new atoms, whose range/contract/division facts are added in turn
	for round := 0; round < 2; round++ {
		applySubsts()
		fs = append(fs, fi.rangeFacts(append(append([]Lin{}, goals...), fs...)...)...)
		fs = append(fs, fi.divisionFacts(append(append([]Lin{}, goals...), fs...))...)
	}
	applySubsts()
	fs = dedupLin(fs)
	fs = fi.strengthenNEQ(fs)
	if debugProve {
		fmt.Printf("PROVE depth=%d substs=%d\n", depth, len(fi.substs))
		for _, g := range goals {
			fmt.Println("   goal", renderFact(g), " == ", g.String())
		}
		for _, f := range fs {
			fmt.Println("   fact", f.String())
		}
	}
	ok := true
	for _, g := range goals {
		if !entails(fs, g) {
			ok = false
			break
		}
	}
	if ok {
		return true
	}
	if depth >= 3 {
		return false
	}
	// φ case split on an atom of the goals (or of the facts that mention goal atoms)
	tried := map[string]bool{}
	for _, g := range goals {
		for a := range g.coef {
			tried[a] = true
			if fi.caseSplit(a, goals, factsIn, depth) {
				return true
			}
		}
	}
	// phis that occur only in the facts (e.g. the length of an array chosen by an earlier branch)
	for _, f := range fs {
		for a := range f.coef {
			if tried[a] || a == neqMarker {
				continue
			}
			tried[a] = true
			if fi.caseSplit(a, goals, factsIn, depth) {
				return true
			}
		}
	}
	return false
}

// caseSplit: atom a is a phi (integer value, or the length of a slice phi);
// prove the goals once per incoming edge.
func (fi *funcInfo) caseSplit(a string, goals, facts []Lin, depth int) bool {
	var phi *ssa.Phi
	isLen := false
	name := a
	if strings.HasPrefix(a, "len(") && strings.HasSuffix(a, ")") {
		name = a[4 : len(a)-1]
		isLen = true
	}
	v, ok := valueByName[name]
	if !ok {
		if isLen {
			return fi.epochJoinSplit(a, goals, facts, depth)
		}
		return false
	}
	if call, isCall := v.(*ssa.Call); isCall && !isLen && call.Parent() == fi.fn {
		return fi.minMaxSplit(a, call, goals, facts, depth)
	}
	phi, ok = v.(*ssa.Phi)
	if !ok || phi.Parent() != fi.fn {
		return false
	}
	if !isLen {
		if pi := analyzePhi(phi); pi != nil && guarded(phi, pi) {
			return false // induction variable: handled by range facts
		}
	}
	if fi.busy[phi] {
		return false
	}
	fi.busy[phi] = true
	defer delete(fi.busy, phi)
	for i, e := range phi.Edges {
		pred := phi.Block().Preds[i]
		var by Lin
		if isLen {
			by = fi.lenOf(e)
		} else {
			by = fi.term(e)
		}
		if by.mentions(a) {
			return false
		}
		var g2, f2 []Lin
		for _, g := range goals {
			g2 = append(g2, g.subst(a, by))
		}
		for _, f := range facts {
			f2 = append(f2, f.subst(a, by))
		}
		for _, ef := range fi.edgeFacts(pred, phi.Block()) {
			f2 = append(f2, ef.subst(a, by))
		}
		fi.substs = append(fi.substs, substEntry{a, by})
		ok := fi.prove(g2, f2, depth+1)
		fi.substs = fi.substs[:len(fi.substs)-1]
		if !ok {
			return false
		}
	}
	return true
}

// divisionFacts: q = x / c and r = x % c for a positive constant c.
func (fi *funcInfo) divisionFacts(ls []Lin) []Lin {
	var out []Lin
	seen := map[string]bool{}
	for _, l := range ls {
		for a := range l.coef {
			if seen[a] {
				continue
			}
			seen[a] = true
			v, ok := valueByName[a]
			if !ok {
				continue
			}
			bo, ok := v.(*ssa.BinOp)
			if !ok || (bo.Op != token.QUO && bo.Op != token.REM && bo.Op != token.SHR && bo.Op != token.AND) {
				continue
			}
			if _, _, isInt := isIntType(bo.Type()); !isInt {
				continue
			}
			cst, ok := bo.Y.(*ssa.Const)
			if !ok && bo.Op == token.REM {
				out = append(out, fi.remByVariable(a, bo)...)
				continue
			}
			if !ok || cst.Value == nil {
				continue
			}
			cv, ok := new(big.Int).SetString(constant.ToInt(cst.Value).ExactString(), 10)
			if !ok || cv.Sign() <= 0 {
				continue
			}
			if bo.Op == token.SHR || bo.Op == token.AND {
				// x >> k is the floor of x / 2^k; x & (2^k - 1) is the remainder of that division
				fi2 := fiByFn[bo.Parent()]
				if fi2 == nil {
					continue
				}
				var c2 *big.Int
				if bo.Op == token.SHR {
					if !cv.IsInt64() || cv.Int64() > 62 {
						continue
					}
					c2 = new(big.Int).Lsh(big.NewInt(1), uint(cv.Int64()))
				} else {
					c2 = new(big.Int).Add(cv, big.NewInt(1))
					if new(big.Int).And(c2, cv).Sign() != 0 {
						continue // not a mask of low bits
					}
				}
				x := fi2.term(bo.X)
				cr := new(big.Rat).SetInt(c2)
				cm1 := new(big.Int).Sub(c2, big.NewInt(1))
				if bo.Op == token.SHR {
					q := atom(a)
					out = append(out, x.sub(q.scale(cr)), q.scale(cr).add(konstBig(cm1)).sub(x))
				} else {
					r := atom(a)
					out = append(out, r, konstBig(cm1).sub(r))
					// the matching quotient, if the function computes it: x = 2^k * (x >> k) + (x & mask)
					for _, bb := range bo.Parent().Blocks {
						for _, in := range bb.Instrs {
							sh, ok := in.(*ssa.BinOp)
							if !ok || sh.X != bo.X {
								continue
							}
							k, isC := constIntVal(sh.Y)
							match := false
							switch sh.Op {
							case token.SHR:
								match = isC && k >= 0 && k < 63 && new(big.Int).Lsh(big.NewInt(1), uint(k)).Cmp(c2) == 0
							}
							if match {
								q := atom(fi2.vname(sh))
								out = append(out, x.sub(q.scale(cr)).sub(r), q.scale(cr).add(r).sub(x))
							}
						}
					}
				}
				out = append(out, fi2.rangeFacts(x)...)
				continue
			}
			fi2 := fiByFn[bo.Parent()]
			if fi2 == nil {
				continue
			}
			x := fi2.term(bo.X)
			c := new(big.Rat).SetInt(cv)
			cm1 := new(big.Int).Sub(cv, big.NewInt(1))
			// is x >= 0 provable from the dominating facts at the division?
			facts, _ := splitNEQ(fi2.factsAt(bo.Block(), bo))
			facts = append(facts, fi2.rangeFacts(append([]Lin{x}, facts...)...)...)
			nonneg := entails(facts, x)
			if !nonneg && !fi2.inDivProof {
				// the dividend may be a choice between non-negative values (φ): try the full prover once
				fi2.inDivProof = true
				savedS, savedN := fi2.substs, fi2.neq
				fi2.substs = nil
				nonneg = fi2.prove([]Lin{x}, fi2.factsAt(bo.Block(), bo), 2)
				fi2.substs, fi2.neq = savedS, savedN
				fi2.inDivProof = false
			}
			if bo.Op == token.QUO {
				q := atom(a)
				if nonneg {
					// c*q <= x <= c*q + c-1
					out = append(out, x.sub(q.scale(c)), q.scale(c).add(konstBig(cm1)).sub(x), q)
				}
			} else {
				r := atom(a)
				if nonneg {
					out = append(out, r, konstBig(cm1).sub(r), x.sub(r))
				} else {
					out = append(out, r.add(konstBig(cm1)), konstBig(cm1).sub(r))
				}
			}
			out = append(out, fi2.rangeFacts(x)...)
		}
	}
	return out
}

// strengthenNEQ: x != c together with x >= c gives x >= c+1 (and dually).
// NEQ facts are collected separately by condFactsNEQ.
func (fi *funcInfo) strengthenNEQ(fs []Lin) []Lin {
	if len(fi.neq) == 0 {
		return fs
	}
	out := fs
	for iter := 0; iter < 3; iter++ {
		added := false
		for _, d := range fi.neq {
			// d != 0
			if entails(out, d) && !entails(out, d.addK(-1)) {
				out = append(out, d.addK(-1))
				added = true
			}
			nd := d.neg()
			if entails(out, nd) && !entails(out, nd.addK(-1)) {
				out = append(out, nd.addK(-1))
				added = true
			}
		}
		if !added {
			break
		}
	}
	return out
}

// ---- structural tactics that do not go through linear arithmetic

// sortComparator: inside the less function of sort.Slice(x, less) the
// parameters index x.
func (fi *funcInfo) sortComparator(ins ssa.Instruction) bool {
	ix, ok := ins.(*ssa.IndexAddr)
	if !ok {
		return false
	}
	fn := fi.fn
	par := fn.Parent()
	if par == nil || len(fn.Params) != 2 {
		return false
	}
	p, ok := ix.Index.(*ssa.Parameter)
	if !ok {
		return false
	}
	_ = p
	// the function value is used exactly once, as the second argument of sort.Slice
	var sorted ssa.Value
	uses := 0
	for _, b := range par.Blocks {
		for _, pi := range b.Instrs {
			for _, op := range pi.Operands(nil) {
				isFn := false
				if mc, ok := (*op).(*ssa.MakeClosure); ok && mc.Fn == fn {
					isFn = true
				}
				if f, ok := (*op).(*ssa.Function); ok && f == fn {
					isFn = true
				}
				if !isFn {
					continue
				}
				if _, isMC := pi.(*ssa.MakeClosure); isMC {
					continue
				}
				uses++
				call, ok := pi.(*ssa.Call)
				if !ok {
					return false
				}
				sc := call.Call.StaticCallee()
				if sc == nil || (calleeName(sc) != "sort.Slice" && calleeName(sc) != "sort.SliceStable") || len(call.Call.Args) != 2 {
					return false
				}
				sorted = call.Call.Args[0]
				if mi, ok := sorted.(*ssa.MakeInterface); ok {
					sorted = mi.X
				}
			}
		}
	}
	// MakeClosure values are used by the call
	if uses == 0 {
		for _, b := range par.Blocks {
			for _, pi := range b.Instrs {
				mc, ok := pi.(*ssa.MakeClosure)
				if !ok || mc.Fn != fn {
					continue
				}
				for _, r := range *mc.Referrers() {
					call, ok := r.(*ssa.Call)
					if !ok {
						return false
					}
					sc := call.Call.StaticCallee()
					if sc == nil || (calleeName(sc) != "sort.Slice" && calleeName(sc) != "sort.SliceStable") {
						return false
					}
					uses++
					sorted = call.Call.Args[0]
					if mi, ok := sorted.(*ssa.MakeInterface); ok {
						sorted = mi.X
					}
				}
			}
		}
	}
	if uses != 1 || sorted == nil {
		return false
	}
	return feCtx.valShape(sorted) == feCtx.valShape(ix.X)
}

// glyphOpArity: cmd.Args[k] under a case of the switch on cmd.Op whose command carries more than k coordinates.
var glyphOpArityTable = map[int64]int64{1: 2, 2: 2, 3: 6, 4: 0} // OpMoveTo, OpLineTo, OpCurveTo, OpClosePath (confirmed by rule T1-GLYPHOPLIT)

func (fi *funcInfo) glyphOpArity(ins ssa.Instruction) bool {
	ix, ok := ins.(*ssa.IndexAddr)
	if !ok {
		return false
	}
	k, isC := constInt(ix.Index)
	if !isC || k < 0 {
		return false
	}
	base, f, ok := fieldOf(ix.X)
	if !ok || f.Name() != "Args" {
		return false
	}
	if n, ok := base.Type().Underlying().(*types.Pointer); !ok || !strings.HasSuffix(n.Elem().String(), "type1.GlyphOp") {
		return false
	}
	enough := func(cds []cond) bool {
		for _, cd := range cds {
			m, ok := asCmp(cd)
			if !ok || m.op != token.EQL {
				continue
			}
			b2, f2, ok := fieldOf(origin(m.x))
			if !ok || f2.Name() != "Op" || !sameValue(b2, base) {
				continue
			}
			if c, isC := constInt(m.y); isC && k < glyphOpArityTable[c] {
				return true
			}
		}
		return false
	}
	if enough(domConds(ix.Block())) {
		return true
	}
	// a clause shared by several commands (`case OpMoveTo, OpLineTo:`): the block, or the
	// nearest dominating join, is entered by several edges, each of which fixes the command
	j := ix.Block()
	for depth := 0; j != nil && len(j.Preds) < 2 && depth < 6; depth++ {
		j = j.Idom()
	}
	if j == nil || len(j.Preds) < 2 {
		return false
	}
	for _, p := range j.Preds {
		ifi, ok := p.Instrs[len(p.Instrs)-1].(*ssa.If)
		var cds []cond
		if ok {
			cds = append(cds, cond{ifi.Cond, p.Succs[0] == j, p})
		}
		cds = append(cds, domConds(p)...)
		if !enough(cds) {
			return false
		}
	}
	return true
}

// findSubmatch: a non-nil result of FindSubmatch of a constant pattern has 1+NumSubexp elements.
func (fi *funcInfo) findSubmatch(ins ssa.Instruction) bool {
	ix, ok := ins.(*ssa.IndexAddr)
	if !ok {
		return false
	}
	k, isC := constInt(ix.Index)
	if !isC || k < 0 {
		return false
	}
	call, ok := ix.X.(*ssa.Call)
	if !ok {
		return false
	}
	sc := call.Call.StaticCallee()
	if sc == nil {
		return false
	}
	// the []byte and string variants have the same contract; the index variants return a pair
	// of positions per group
	perGroup := int64(1)
	switch calleeName(sc) {
	case "(*regexp.Regexp).FindSubmatch", "(*regexp.Regexp).FindStringSubmatch":
	case "(*regexp.Regexp).FindSubmatchIndex", "(*regexp.Regexp).FindStringSubmatchIndex":
		perGroup = 2
	default:
		return false
	}
	// receiver: a regexp compiled from a constant pattern (package-level variable, lazily
	// compiled value, helper that returns it)
	pat := regexpPattern(call.Call.Args[0], 0)
	if pat == "" {
		return false
	}
	re, err := syntax.Parse(pat, syntax.Perl)
	if err != nil {
		return false
	}
	if k >= perGroup*(int64(re.MaxCap())+1) {
		return false
	}
	// dominated by result != nil
	for _, cd := range domConds(ix.Block()) {
		m, ok := asCmp(cd)
		if ok && m.op == token.NEQ && m.x == ssa.Value(call) && isNilConst(m.y) {
			return true
		}
	}
	return false
}

// monotone slots: slice fields whose every store in the program is an
// append to themselves or a prefix re-slice of themselves; their capacity
// never shrinks.
func monotoneSlots(c *Ctx) map[string]bool {
	cand := map[string]bool{}
	bad := map[string]bool{}
	for _, f := range c.modFuncs {
		eachInstr(f, func(ins ssa.Instruction) {
			st, ok := ins.(*ssa.Store)
			if !ok {
				return
			}
			fa, ok := st.Addr.(*ssa.FieldAddr)
			if !ok {
				return
			}
			if _, isSlice := fa.Type().(*types.Pointer).Elem().Underlying().(*types.Slice); !isSlice {
				return
			}
			name := fieldName(fa)
			cand[name] = true
			okForm := false
			sameSlot := func(v ssa.Value) bool {
				ld, ok := v.(*ssa.UnOp)
				if !ok || ld.Op != token.MUL {
					return false
				}
				fa2, ok := ld.X.(*ssa.FieldAddr)
				return ok && fieldName(fa2) == name && sameValue(fa2.X, fa.X)
			}
			switch v := st.Val.(type) {
			case *ssa.Call:
				if b, ok := v.Call.Value.(*ssa.Builtin); ok && b.Name() == "append" {
					a0 := v.Call.Args[0]
					if sl, ok := a0.(*ssa.Slice); ok && sl.Low == nil {
						a0 = sl.X
					}
					if sameSlot(a0) {
						okForm = true
					}
				}
			case *ssa.Slice:
				if v.Low == nil && sameSlot(v.X) {
					okForm = true
				}
			case *ssa.Const:
				// nil: capacity 0 — only allowed in composite literal initialisation (fresh object)
				if al, ok := fa.X.(*ssa.Alloc); ok && al.Parent() == f {
					okForm = true
				}
			}
			if al, ok := fa.X.(*ssa.Alloc); ok && al.Parent() == f {
				okForm = true // construction of a fresh object
			}
			if !okForm {
				bad[name] = true
			}
		})
	}
	monotoneSlotsByAccessor(c, cand, bad) // stores through the address of the field, in helper methods (ext_y1.go)
	out := map[string]bool{}
	for n := range cand {
		if !bad[n] {
			out[n] = true
		}
	}
	return out
}

// monotoneCapacity: S[:h] where h was the length of the same slot at an earlier point.
func (fi *funcInfo) monotoneCapacity(ins ssa.Instruction, mono map[string]bool) bool {
	sl, ok := ins.(*ssa.Slice)
	if !ok || sl.Low != nil || sl.High == nil {
		return false
	}
	ld, ok := sl.X.(*ssa.UnOp)
	if !ok || ld.Op != token.MUL {
		return false
	}
	base, f, ok := slotOf(ld.X)
	if !ok || !mono[f] || strings.HasPrefix(f, "cell:") {
		return false
	}
	h := fi.term(sl.High)
	// h = len(base.f@e) + c with c <= 0 and provably >= 0
	if len(h.coef) != 1 {
		return false
	}
	for a, k := range h.coef {
		if k.Cmp(big.NewRat(1, 1)) != 0 {
			return false
		}
		prefix := fmt.Sprintf("len(%s.%s@", fi.vname(base), f)
		if !strings.HasPrefix(a, prefix) {
			return false
		}
	}
	if h.c.Sign() > 0 {
		return false
	}
	facts := fi.factsAt(ins.Block(), ins)
	return fi.prove([]Lin{h}, facts, 0)
}

func dedupLin(ls []Lin) []Lin {
	seen := map[string]bool{}
	var out []Lin
	for _, l := range ls {
		k := l.String()
		if !seen[k] {
			seen[k] = true
			out = append(out, l)
		}
	}
	return out
}

// minMaxSplit: atom a is the result of the builtin min or max over integers; the goals are
// proved once per operand, with a replaced by that operand under the fact that it is the
// smallest (largest) of them.
func (fi *funcInfo) minMaxSplit(a string, call *ssa.Call, goals, facts []Lin, depth int) bool {
	b, ok := call.Call.Value.(*ssa.Builtin)
	if !ok || (b.Name() != "min" && b.Name() != "max") || len(call.Call.Args) < 2 {
		return false
	}
	if _, _, isInt := isIntType(call.Type()); !isInt {
		return false
	}
	if fi.busyCall == nil {
		fi.busyCall = map[*ssa.Call]bool{}
	}
	if fi.busyCall[call] {
		return false
	}
	fi.busyCall[call] = true
	defer delete(fi.busyCall, call)
	var ts []Lin
	for _, x := range call.Call.Args {
		ts = append(ts, fi.term(x))
	}
	for i, by := range ts {
		if by.mentions(a) {
			return false
		}
		var g2, f2 []Lin
		for _, g := range goals {
			g2 = append(g2, g.subst(a, by))
		}
		for _, f := range facts {
			f2 = append(f2, f.subst(a, by))
		}
		for j, o := range ts {
			if j == i {
				continue
			}
			if b.Name() == "min" {
				f2 = append(f2, o.sub(by)) // o - by >= 0
			} else {
				f2 = append(f2, by.sub(o))
			}
		}
		fi.substs = append(fi.substs, substEntry{a, by})
		ok := fi.prove(g2, f2, depth+1)
		fi.substs = fi.substs[:len(fi.substs)-1]
		if !ok {
			return false
		}
	}
	return true
}

// regexpPattern: the constant pattern of the *regexp.Regexp value v: regexp.MustCompile(const),
// a package-level variable initialised with such a value, the result of a function (or of a
// sync.OnceValue wrapper around a function) all of whose returns are such values.
func regexpPattern(v ssa.Value, depth int) string {
	if depth > 4 {
		return ""
	}
	v = origin(v)
	switch x := v.(type) {
	case *ssa.Call:
		if sc := x.Call.StaticCallee(); sc != nil {
			switch calleeName(sc) {
			case "regexp.MustCompile", "regexp.MustCompilePOSIX":
				if len(x.Call.Args) == 1 {
					if s, ok := constString(x.Call.Args[0]); ok {
						return s
					}
				}
				return ""
			}
			if inMod(sc) && len(sc.Blocks) > 0 {
				return regexpPatternOfFunc(sc, depth+1)
			}
			return ""
		}
		// a call of a function value: sync.OnceValue(f) held in a package-level variable
		if g := globalLoad(x.Call.Value); g != nil {
			if init := globalInit(g); init != nil {
				if c2, ok := init.(*ssa.Call); ok {
					if sc := c2.Call.StaticCallee(); sc != nil && strings.HasPrefix(calleeName(sc), "sync.OnceValue") && len(c2.Call.Args) == 1 {
						switch f := origin(c2.Call.Args[0]).(type) {
						case *ssa.Function:
							return regexpPatternOfFunc(f, depth+1)
						case *ssa.MakeClosure:
							if fn, ok := f.Fn.(*ssa.Function); ok {
								return regexpPatternOfFunc(fn, depth+1)
							}
						}
					}
				}
			}
		}
	case *ssa.UnOp:
		if g := globalLoad(x); g != nil {
			if init := globalInit(g); init != nil {
				return regexpPattern(init, depth+1)
			}
		}
	}
	return ""
}

func regexpPatternOfFunc(f *ssa.Function, depth int) string {
	pat := ""
	for _, r := range returns(f) {
		if len(r.Results) != 1 {
			return ""
		}
		p := regexpPattern(r.Results[0], depth)
		if p == "" || (pat != "" && p != pat) {
			return ""
		}
		pat = p
	}
	return pat
}

// globalInit: the value the package initialiser stores into a package-level variable (nil if it
// is stored more than once).
func globalInit(g *ssa.Global) ssa.Value {
	var val ssa.Value
	n := 0
	if g.Pkg == nil || g.Pkg.Func("init") == nil {
		return nil
	}
	eachInstr(g.Pkg.Func("init"), func(i2 ssa.Instruction) {
		if st, ok := i2.(*ssa.Store); ok && st.Addr == ssa.Value(g) {
			val = st.Val
			n++
		}
	})
	if n != 1 {
		return nil
	}
	// never assigned anywhere else
	for _, fn := range feCtx.modFuncs {
		other := false
		eachInstr(fn, func(i2 ssa.Instruction) {
			if st, ok := i2.(*ssa.Store); ok && st.Addr == ssa.Value(g) && fn != g.Pkg.Func("init") {
				other = true
			}
		})
		if other {
			return nil
		}
	}
	return val
}
